#!/usr/bin/env python3
"""tools/seed_sweep.py [names...] : apply every seeded change (seeded/<name>/patch.diff) to /repo in turn, run the quick
check of the property it breaks (plus the related checks listed below), revert, and record the outcome in its meta.json."""
import json, os, subprocess, sys, time

RELATED = {"C06-2": ["C11"], "C03-2": ["C12"], "C12-2": ["C11"], "C07-2": ["C01"], "C04-1": ["C01"], "C04-2": ["C01"], "C01-1": ["C07"]}


def sh(cmd, cwd="/verif", timeout=3600):
    p = subprocess.run(cmd, cwd=cwd, shell=True, stdout=subprocess.PIPE, stderr=subprocess.STDOUT, text=True, errors="replace", timeout=timeout)
    return p.returncode, p.stdout


def main():
    names = sys.argv[1:] or sorted(os.listdir("/verif/seeded"))
    rows = []
    for name in names:
        d = os.path.join("/verif/seeded", name)
        mp = os.path.join(d, "meta.json")
        if not os.path.exists(mp):
            continue
        meta = json.load(open(mp))
        prop = meta.get("breaks_property") or name.split("-")[0]
        rc, out = sh("git -C /repo status --porcelain")
        if out.strip():
            print("/repo not clean"); return 1
        rc, out = sh("git -C /repo apply %s/patch.diff" % d)
        if rc != 0:
            print(name, "patch does not apply:", out); continue
        results = {}
        try:
            for c in [prop] + RELATED.get(name, []):
                t0 = time.time()
                try:
                    rc, out = sh("timeout 2400 ./check %s quick" % c)
                except subprocess.TimeoutExpired:
                    rc, out = 124, ""
                viol = [l for l in out.splitlines() if l.startswith("VIOLATION")]
                results[c] = {"exit": rc, "violation_lines": len(viol), "wall_s": round(time.time() - t0)}
        finally:
            sh("git -C /repo checkout -- .")
            sh("rm -rf /verif/replays")
        meta["checks"] = results
        meta["detected"] = any(v["exit"] == 1 and v["violation_lines"] > 0 for v in results.values())
        meta["detected_by"] = sorted(c for c, v in results.items() if v["exit"] == 1 and v["violation_lines"] > 0)
        json.dump(meta, open(mp, "w"), indent=1)
        rows.append((name, prop, meta["detected_by"], {c: v["exit"] for c, v in results.items()}))
        print(name, prop, "detected by", meta["detected_by"], results, flush=True)
    return 0


if __name__ == "__main__":
    sys.exit(main())
