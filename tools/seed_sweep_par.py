#!/usr/bin/env python3
"""tools/seed_sweep_par.py <workers> [names...] : like seed_sweep.py, but in parallel and without touching /repo: every
worker owns a scratch git worktree of /repo's HEAD under /tmp (removed at the end), applies one seeded change at a time,
runs `VERIF_REPO=<worktree> ./check <prop> quick`, reverts, and records the outcome in seeded/<name>/meta.json."""
import json, os, subprocess, sys, time
from concurrent.futures import ThreadPoolExecutor


def sh(cmd, cwd="/verif", timeout=3600, env=None):
    e = dict(os.environ)
    if env:
        e.update(env)
    p = subprocess.run(cmd, cwd=cwd, shell=True, env=e, stdout=subprocess.PIPE, stderr=subprocess.STDOUT, text=True, errors="replace", timeout=timeout)
    return p.returncode, p.stdout


def worker(args):
    k, names = args
    wt = "/tmp/sw-%d" % k
    sh("git -C /repo worktree remove --force %s" % wt)
    rc, out = sh("git -C /repo worktree add --detach %s HEAD" % wt)
    if rc != 0:
        print("worktree failed", out); return
    try:
        for name in names:
            d = os.path.join("/verif/seeded", name)
            mp = os.path.join(d, "meta.json")
            meta = json.load(open(mp))
            prop = meta.get("breaks_property") or name.split("-")[0]
            sh("git checkout -- .", cwd=wt)
            rc, out = sh("git apply %s/patch.diff" % d, cwd=wt)
            if rc != 0:
                print(name, "patch does not apply:", out, flush=True); continue
            t0 = time.time()
            try:
                rc, out = sh("timeout 2400 ./check %s quick" % prop, env={"VERIF_REPO": wt})
            except subprocess.TimeoutExpired:
                rc, out = 124, ""
            sh("git checkout -- .", cwd=wt)
            viol = [l for l in out.splitlines() if l.startswith("VIOLATION")]
            res = {"exit": rc, "violation_lines": len(viol), "first": (viol[0] if viol else ""), "wall_s": round(time.time() - t0), "resweep": time.strftime("%Y-%m-%d %H:%M")}
            meta.setdefault("checks", {})[prop] = res
            meta["detected"] = any(v["exit"] == 1 and v["violation_lines"] > 0 for v in meta["checks"].values())
            meta["detected_by"] = sorted(c for c, v in meta["checks"].items() if v["exit"] == 1 and v["violation_lines"] > 0)
            json.dump(meta, open(mp, "w"), indent=1)
            print(name, prop, "exit", rc, "violations", len(viol), "wall", res["wall_s"], flush=True)
    finally:
        sh("git -C /repo worktree remove --force %s" % wt)
        sh("rm -rf /verif/replays")


def main():
    n = int(sys.argv[1])
    names = sys.argv[2:] or sorted(x for x in os.listdir("/verif/seeded") if os.path.exists("/verif/seeded/%s/meta.json" % x))
    parts = [(k, names[k::n]) for k in range(n)]
    with ThreadPoolExecutor(max_workers=n) as ex:
        list(ex.map(worker, parts))
    sh("git -C /repo worktree prune")
    return 0


if __name__ == "__main__":
    sys.exit(main())
