module sharedvars

go 1.16
