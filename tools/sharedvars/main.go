// sharedvars: static extraction for C14. Lists the package-level variables of a Go source tree that are written
// (assigned, inc/dec'd) or have their address taken in a function other than init, with the enclosing function and
// whether the access goes through sync/atomic. Standard library only (go/parser, go/ast).
package main

import (
	"encoding/json"
	"go/ast"
	"go/parser"
	"go/token"
	"os"
	"path/filepath"
	"strings"
)

type access struct {
	Pkg  string `json:"pkg"`
	Var  string `json:"var"`
	Fn   string `json:"fn"`
	Mode string `json:"mode"` // "w" plain write, "addr" address taken (possible write), "aw" atomic write
	File string `json:"file"`
	Line int    `json:"line"`
}

func main() {
	root := os.Args[1]
	var out []access
	fset := token.NewFileSet()
	filepath.Walk(root, func(path string, info os.FileInfo, err error) error {
		if err != nil || !info.IsDir() {
			return nil
		}
		if strings.Contains(path, "/.git") || strings.HasSuffix(path, "fakes") || strings.Contains(path, "/tools") {
			return filepath.SkipDir
		}
		pkgs, err := parser.ParseDir(fset, path, func(fi os.FileInfo) bool { return !strings.HasSuffix(fi.Name(), "_test.go") }, 0)
		if err != nil {
			return nil
		}
		for _, pkg := range pkgs {
			vars := map[string]bool{}
			for _, f := range pkg.Files {
				for _, d := range f.Decls {
					if gd, ok := d.(*ast.GenDecl); ok && gd.Tok == token.VAR {
						for _, s := range gd.Specs {
							for _, n := range s.(*ast.ValueSpec).Names {
								vars[n.Name] = true
							}
						}
					}
				}
			}
			for fname, f := range pkg.Files {
				for _, d := range f.Decls {
					fd, ok := d.(*ast.FuncDecl)
					if !ok || fd.Body == nil || fd.Name.Name == "init" {
						continue
					}
					// locals that shadow a package variable are ignored (approximation: any := or var of that name in the function)
					shadow := map[string]bool{}
					ast.Inspect(fd, func(n ast.Node) bool {
						switch x := n.(type) {
						case *ast.AssignStmt:
							if x.Tok == token.DEFINE {
								for _, l := range x.Lhs {
									if id, ok := l.(*ast.Ident); ok {
										shadow[id.Name] = true
									}
								}
							}
						case *ast.ValueSpec:
							for _, id := range x.Names {
								shadow[id.Name] = true
							}
						case *ast.Field:
							for _, id := range x.Names {
								shadow[id.Name] = true
							}
						}
						return true
					})
					rel, _ := filepath.Rel(root, fname)
					// variables of the enclosing function that a closure (the parser it returns) WRITES: state that lives in the
					// parser graph and is shared by every parse that uses it
					outer := map[string]bool{}
					if fd.Type.Params != nil {
						for _, fl := range fd.Type.Params.List {
							for _, id := range fl.Names {
								outer[id.Name] = true
							}
						}
					}
					for _, st := range fd.Body.List {
						switch x := st.(type) {
						case *ast.AssignStmt:
							if x.Tok == token.DEFINE {
								for _, l := range x.Lhs {
									if id, ok := l.(*ast.Ident); ok {
										outer[id.Name] = true
									}
								}
							}
						case *ast.DeclStmt:
							if gd, ok := x.Decl.(*ast.GenDecl); ok {
								for _, sp := range gd.Specs {
									if vs, ok := sp.(*ast.ValueSpec); ok {
										for _, id := range vs.Names {
											outer[id.Name] = true
										}
									}
								}
							}
						}
					}
					// only closures that ESCAPE (are returned as the parser) carry state from one parse to the next; a callback handed
					// to a synchronous callee (keys.Each(func ...), Walk(node, func ...)) does not
					var returned []*ast.FuncLit
					ast.Inspect(fd.Body, func(n ast.Node) bool {
						if rs, ok := n.(*ast.ReturnStmt); ok {
							ast.Inspect(rs, func(m ast.Node) bool {
								if fl, ok := m.(*ast.FuncLit); ok {
									returned = append(returned, fl)
									return false
								}
								return true
							})
							return false
						}
						return true
					})
					isReturned := func(fl *ast.FuncLit) bool {
						for _, r := range returned {
							if r == fl {
								return true
							}
						}
						return false
					}
					ast.Inspect(fd.Body, func(n ast.Node) bool {
						fl, ok := n.(*ast.FuncLit)
						if !ok {
							return true
						}
						if !isReturned(fl) {
							return false
						}
						inner := map[string]bool{}
						if fl.Type.Params != nil {
							for _, f2 := range fl.Type.Params.List {
								for _, id := range f2.Names {
									inner[id.Name] = true
								}
							}
						}
						ast.Inspect(fl.Body, func(m ast.Node) bool {
							switch x := m.(type) {
							case *ast.AssignStmt:
								for _, l := range x.Lhs {
									root := l
									for {
										if ie, ok := root.(*ast.IndexExpr); ok {
											root = ie.X
										} else if se, ok := root.(*ast.SelectorExpr); ok {
											root = se.X
										} else {
											break
										}
									}
									if id, ok := root.(*ast.Ident); ok {
										if x.Tok == token.DEFINE && root == l {
											inner[id.Name] = true
										} else if outer[id.Name] && !inner[id.Name] {
											out = append(out, access{pkg.Name, "closure:" + fd.Name.Name + "." + id.Name, fd.Name.Name, "w", rel, fset.Position(id.Pos()).Line})
										}
									}
								}
							case *ast.IncDecStmt:
								if id, ok := x.X.(*ast.Ident); ok && outer[id.Name] && !inner[id.Name] {
									out = append(out, access{pkg.Name, "closure:" + fd.Name.Name + "." + id.Name, fd.Name.Name, "w", rel, fset.Position(id.Pos()).Line})
								}
							}
							return true
						})
						return false
					})
					add := func(name, mode string, pos token.Pos) {
						if vars[name] && !shadow[name] {
							out = append(out, access{pkg.Name, name, fd.Name.Name, mode, rel, fset.Position(pos).Line})
						}
					}
					ast.Inspect(fd.Body, func(n ast.Node) bool {
						switch x := n.(type) {
						case *ast.AssignStmt:
							if x.Tok != token.DEFINE {
								for _, l := range x.Lhs {
									if id, ok := l.(*ast.Ident); ok {
										add(id.Name, "w", id.Pos())
									}
								}
							}
						case *ast.IncDecStmt:
							if id, ok := x.X.(*ast.Ident); ok {
								add(id.Name, "w", id.Pos())
							}
						case *ast.CallExpr:
							atomicCall := false
							if se, ok := x.Fun.(*ast.SelectorExpr); ok {
								if p, ok := se.X.(*ast.Ident); ok && p.Name == "atomic" {
									atomicCall = true
								}
							}
							for _, a := range x.Args {
								if u, ok := a.(*ast.UnaryExpr); ok && u.Op == token.AND {
									if id, ok := u.X.(*ast.Ident); ok {
										if atomicCall {
											add(id.Name, "aw", id.Pos())
										} else {
											add(id.Name, "addr", id.Pos())
										}
									}
								}
							}
						}
						return true
					})
				}
			}
		}
		return nil
	})
	if out == nil {
		out = []access{}
	}
	json.NewEncoder(os.Stdout).Encode(out)
}
