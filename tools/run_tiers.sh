#!/bin/sh
# tools/run_tiers.sh <tier> <seed> <ids...> : run several checks one after the other (for background sweeps);
# uses $VP_RUN_REPO as the repository under test when set (snapshot of /repo's HEAD)
tier="$1"; seed="$2"; shift 2
[ -n "$VP_RUN_REPO" ] && export VERIF_REPO="$VP_RUN_REPO"
for id in "$@"; do
  /usr/bin/time -f "$id $tier seed=$seed wall=%es" env VERIF_SEED=$seed ./check "$id" "$tier" 2>&1 | grep -v '^WARNING\|^DRIFT' | tail -4
  echo "exit=$? $id"
done
