#!/bin/sh
# tools/run_tiers.sh <tier> <seed> <ids...> : run several checks one after the other (for background sweeps);
# uses $VP_RUN_REPO as the repository under test when set (snapshot of /repo's HEAD); full output in sweep-<id>-<tier>-<seed>.out
tier="$1"; seed="$2"; shift 2
[ -n "$VP_RUN_REPO" ] && export VERIF_REPO="$VP_RUN_REPO"
for id in "$@"; do
  t0=$(date +%s)
  VERIF_SEED=$seed ./check "$id" "$tier" > "sweep-$id-$tier-$seed.out" 2>&1
  rc=$?
  echo "$id $tier seed=$seed exit=$rc wall=$(( $(date +%s) - t0 ))s :: $(grep -v '^WARNING\|^DRIFT' "sweep-$id-$tier-$seed.out" | grep 'seed=\|INCONCLUSIVE\|VIOLATION' | tail -2 | cut -c1-300 | tr '\n' ' ')"
done
