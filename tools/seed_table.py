#!/usr/bin/env python3
"""tools/seed_table.py : regenerate the table of seeded changes in DESIGN.md (between the markers
<!-- seeds:begin --> and <!-- seeds:end -->) from seeded/*/meta.json."""
import glob, json, os, re

ROOT = os.path.dirname(os.path.dirname(os.path.abspath(__file__)))


def cell(s, n):
    s = re.sub(r"\s+", " ", str(s or "")).replace("|", "/")
    return s[:n] + ("..." if len(s) > n else "")


def main():
    rows = ["| seed | change | needs, to manifest | quick checks that report it |", "|---|---|---|---|"]
    metas = sorted(glob.glob(os.path.join(ROOT, "seeded", "*", "meta.json")))
    nd = 0
    for m in metas:
        d = json.load(open(m))
        name = os.path.basename(os.path.dirname(m))
        det = [c for c, v in d.get("checks", {}).items() if v.get("exit") == 1 and v.get("violation_lines", 0) > 0]
        nd += 1 if det else 0
        rows.append("| %s | %s | %s | %s |" % (name, cell(d.get("summary"), 260), cell(d.get("needs_to_manifest"), 200), ", ".join(det) or "**none**"))
    rows.append("")
    rows.append("%d seeded changes, %d reported by the quick check of their property." % (len(metas), nd))
    p = os.path.join(ROOT, "DESIGN.md")
    s = open(p).read()
    a, b = "<!-- seeds:begin -->", "<!-- seeds:end -->"
    i, j = s.index(a) + len(a), s.index(b)
    s = s[:i] + "\n" + "\n".join(rows) + "\n" + s[j:]
    open(p, "w").write(s)
    print(rows[-1])


if __name__ == "__main__":
    main()
