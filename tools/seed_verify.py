#!/usr/bin/env python3
"""tools/seed_verify.py <worktree> <k> <PROP> [check-ids...]
Confirms a seeded defect delivered by a sub-agent in a scratch worktree (patch<k>.diff, demo<k>/, meta<k>.json under
<worktree>/_seed): (a) the repository's suite passes with the patch, (b) the demo fails with it, (c) the demo passes
without it. If confirmed, keeps it as /verif/seeded/<PROP>-<name>/ and runs the given checks (default: PROP) against /repo
with the patch applied (reverted straight afterwards), recording which checks detect it."""
import json, os, shutil, subprocess, sys, time

ENV = dict(os.environ, GOFLAGS="-mod=mod", GOPROXY="off", GOSUMDB="off", GOTOOLCHAIN="local")


def sh(cmd, cwd, timeout=1800):
    p = subprocess.run(cmd, cwd=cwd, shell=True, env=ENV, stdout=subprocess.PIPE, stderr=subprocess.STDOUT, text=True, errors="replace", timeout=timeout)
    return p.returncode, p.stdout


def main():
    wt, k, prop = sys.argv[1], sys.argv[2], sys.argv[3]
    checks = sys.argv[4:] or [prop]
    seed = os.path.join(wt, "_seed")
    patch = os.path.join(seed, "patch%s.diff" % k)
    demo = os.path.join(seed, "demo%s" % k)
    meta = json.load(open(os.path.join(seed, "meta%s.json" % k)))
    sh("git checkout -- .", wt)
    rc, out = sh("git apply --check %s" % patch, wt)
    if rc != 0:
        print("patch does not apply:", out); return 1
    rc_c, out_c = sh("go test -count=1 ./...", demo)
    sh("git apply %s" % patch, wt)
    rc_a, out_a = sh("go build ./... && go test -vet=off -count=1 ./...", wt)
    rc_b, out_b = sh("go test -count=1 ./...", demo)
    sh("git checkout -- .", wt)
    ok = rc_a == 0 and rc_b != 0 and rc_c == 0
    print("(a) suite passes with patch: %s; (b) demo fails with patch: %s; (c) demo passes without: %s" % (rc_a == 0, rc_b != 0, rc_c == 0))
    if not ok:
        print(out_a[-1500:] if rc_a else "", out_b[-800:] if rc_b == 0 else "", out_c[-800:] if rc_c else "")
        return 1
    name = "%s-%s" % (prop, k) if len(sys.argv) < 4 or not os.environ.get("SEED_NAME") else os.environ["SEED_NAME"]
    dst = os.path.join("/verif/seeded", name)
    shutil.rmtree(dst, ignore_errors=True)
    os.makedirs(dst)
    shutil.copy(patch, os.path.join(dst, "patch.diff"))
    shutil.copytree(demo, os.path.join(dst, "demo"))
    # the demo must point at /repo, not at the scratch worktree
    gm = os.path.join(dst, "demo", "go.mod")
    t = open(gm).read().replace(wt, "/repo")
    open(gm, "w").write(t)
    results = {}
    # SEED_CHECK_REPO: run the checks against another working tree of /repo's HEAD (VERIF_REPO) instead of /repo itself
    crepo = os.environ.get("SEED_CHECK_REPO", "/repo")
    if crepo != "/repo":
        ENV["VERIF_REPO"] = crepo
    rc, out = sh("git -C %s status --porcelain" % crepo, crepo)
    if out.strip():
        print("%s is not clean, not running the checks" % crepo); return 1
    rc, out = sh("git -C %s apply %s" % (crepo, os.path.join(dst, "patch.diff")), crepo)
    try:
        for c in checks:
            t0 = time.time()
            rc, out = sh("./check %s quick" % c, "/verif", timeout=3600)
            viol = [l for l in out.splitlines() if l.startswith("VIOLATION")]
            results[c] = {"exit": rc, "violation_lines": len(viol), "first": (viol[0] if viol else ""), "wall_s": round(time.time() - t0),
                          "tail": out.splitlines()[-3:]}
            print("check %s quick: exit %d, %d VIOLATION lines (%ds)" % (c, rc, len(viol), time.time() - t0))
    finally:
        sh("git -C %s checkout -- ." % crepo, crepo)
        if crepo == "/repo":
            shutil.rmtree("/verif/replays", ignore_errors=True)
    meta.update({"breaks_property": prop, "confirmed": {"suite_passes_with_patch": True, "demo_fails_with_patch": True, "demo_passes_without": True},
                 "ran": ["go test ./... in a scratch worktree with the patch", "demo with / without the patch"] + ["./check %s quick with the patch applied to /repo" % c for c in checks],
                 "checks": results, "detected": any(v["exit"] == 1 and v["violation_lines"] > 0 for v in results.values())})
    json.dump(meta, open(os.path.join(dst, "meta.json"), "w"), indent=1)
    print("kept as", dst, "detected:", meta["detected"])
    return 0


if __name__ == "__main__":
    sys.exit(main())
