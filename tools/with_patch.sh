#!/bin/sh
# tools/with_patch.sh <patch.diff> <command...> : apply a seeded patch to /repo, run the command in /verif, always revert
p="$1"; shift
[ -z "$(git -C /repo status --porcelain)" ] || { echo "/repo not clean"; exit 2; }
git -C /repo apply "$p" || exit 2
( cd /verif && timeout 3000 "$@" ); rc=$?
git -C /repo checkout -- .
rm -rf /verif/replays
exit $rc
