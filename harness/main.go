// pvh: conformance harness binding the TLA+ specifications in /verif/spec to the
// real opsidian/parsley code in /repo (built with -tags verif).
//
//	pvh <component> <mode> [key=value ...]
//
// Every component has a model->code mode ("replay": cases exported by TLC, each with the
// outcome the specification expects, are run through the real code and compared) and a
// code->model mode ("gen": the real code is run on generated cases and what it did is
// written as an ndjson trace that TLC validates against the specification).
package main

import (
	"bufio"
	"encoding/json"
	"fmt"
	"os"
	"sort"
	"strconv"
	"strings"
)

type J = map[string]interface{}

type args map[string]string

func (a args) str(k, def string) string {
	if v, ok := a[k]; ok {
		return v
	}
	return def
}
func (a args) num(k string, def int) int {
	if v, ok := a[k]; ok {
		n, err := strconv.Atoi(v)
		if err != nil {
			die("bad integer for %s: %v", k, err)
		}
		return n
	}
	return def
}

func die(f string, a ...interface{}) {
	fmt.Fprintf(os.Stderr, "pvh: "+f+"\n", a...)
	os.Exit(2)
}

// readLines calls f for every non-empty line of an ndjson file
func readLines(path string, f func(line []byte)) {
	fh, err := os.Open(path)
	if err != nil {
		die("%v", err)
	}
	defer fh.Close()
	sc := bufio.NewScanner(fh)
	sc.Buffer(make([]byte, 1<<20), 1<<28)
	for sc.Scan() {
		b := sc.Bytes()
		if len(strings.TrimSpace(string(b))) == 0 {
			continue
		}
		f(b)
	}
	if err := sc.Err(); err != nil {
		die("%v", err)
	}
}

type out struct {
	f *os.File
	w *bufio.Writer
	e *json.Encoder
	n int
}

func newOut(path string) *out {
	f, err := os.Create(path)
	if err != nil {
		die("%v", err)
	}
	w := bufio.NewWriterSize(f, 1<<20)
	e := json.NewEncoder(w)
	e.SetEscapeHTML(false)
	return &out{f: f, w: w, e: e}
}
func (o *out) put(v interface{}) {
	if err := o.e.Encode(v); err != nil {
		die("%v", err)
	}
	o.n++
}
func (o *out) close() { o.w.Flush(); o.f.Close() }

func writeJSON(path string, v interface{}) {
	b, err := json.MarshalIndent(v, "", " ")
	if err != nil {
		die("%v", err)
	}
	if err := os.WriteFile(path, b, 0o644); err != nil {
		die("%v", err)
	}
}

func sortedInts(m map[int]bool) []int {
	r := make([]int, 0, len(m))
	for k := range m {
		r = append(r, k)
	}
	sort.Ints(r)
	return r
}

var components = map[string]func(mode string, a args){}

func main() {
	if len(os.Args) < 3 {
		die("usage: pvh <component> <mode> [key=value ...]")
	}
	a := args{}
	for _, kv := range os.Args[3:] {
		i := strings.IndexByte(kv, '=')
		if i < 0 {
			die("bad argument %q", kv)
		}
		a[kv[:i]] = kv[i+1:]
	}
	c, ok := components[os.Args[1]]
	if !ok {
		die("unknown component %q", os.Args[1])
	}
	c(os.Args[2], a)
}

// safely runs f and returns the panic message, if f panicked ("" otherwise)
func safely(f func()) (msg string) {
	defer func() {
		if r := recover(); r != nil {
			msg = fmt.Sprintf("PANIC: %v", r)
		}
	}()
	f()
	return ""
}
