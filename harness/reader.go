package main

// C09: text.Reader primitives against spec/Reader.tla

import (
	"encoding/json"
	"fmt"
	"math/rand"
	"reflect"
	"regexp"

	pdata "github.com/opsidian/parsley/data"
	"github.com/opsidian/parsley/parsley"
	"github.com/opsidian/parsley/text"
	"github.com/opsidian/parsley/text/terminal"
)

func init() { components["reader"] = readerMain }

func rfDigits(b []byte) ([]byte, int) {
	n := 0
	for n < len(b) && b[n] >= '0' && b[n] <= '9' {
		n++
	}
	if n == 0 {
		return nil, 0
	}
	return b[:n], n
}
func rfPair(b []byte) ([]byte, int) {
	if len(b) >= 2 && b[0] == 'a' {
		return []byte{'X'}, 2
	}
	return nil, 0
}

var rdModes = map[string]text.WsMode{"none": text.WsNone, "spaces": text.WsSpaces, "nl": text.WsSpacesNl, "forcenl": text.WsSpacesForceNl}

func intsOf(b []byte) []int {
	r := make([]int, len(b))
	for i, x := range b {
		r[i] = int(x)
	}
	return r
}

func wsErrJ(e parsley.Error) []interface{} {
	if e == nil {
		return []interface{}{}
	}
	return []interface{}{int(e.Pos()), e.Error()}
}

type rdCase struct {
	Data []int           `json:"data"`
	Base int             `json:"base"`
	Pos  int             `json:"pos"`
	Rune [][]interface{} `json:"rune"`
	Str  [][]interface{} `json:"str"`
	Word [][]interface{} `json:"word"`
	Ws   [][]interface{} `json:"ws"`
	Rf   [][]interface{} `json:"rf"`
	Rem  int             `json:"rem"`
	Eof  bool            `json:"eof"`
}

func toBytes(v interface{}) []byte {
	var r []byte
	for _, x := range v.([]interface{}) {
		r = append(r, byte(x.(float64)))
	}
	return r
}

var rdCache = map[string]*text.Reader{}

var rdExprs = []string{`a+`, `[a_1]+`, `\s+`, `a|aa`, `.`, `(a)(_)?`}

func readerMain(mode string, a args) {
	switch mode {
	case "replay":
		cases, comps, nontriv := 0, 0, 0
		mism := []J{}
		var samples []interface{}
		readLines(a.str("in", ""), func(line []byte) {
			var c rdCase
			if err := json.Unmarshal(line, &c); err != nil {
				die("bad case: %v", err)
			}
			cases++
			if len(c.Data) > 0 {
				nontriv++
			}
			// one file and one reader per (content, base): the primitives are applied to a reader that has been used before
			key := fmt.Sprintf("%v@%d", c.Data, c.Base)
			rd := rdCache[key]
			if rd == nil {
				if len(rdCache) > 4000 {
					rdCache = map[string]*text.Reader{}
				}
				f, _ := fileAt(bytesOf(c.Data), c.Base)
				rd = readerFor(f)
				rdCache[key] = rd
			}
			pos := parsley.Pos(c.Pos)
			cmp := func(what string, got, want interface{}) {
				comps++
				if !reflect.DeepEqual(norm(got), norm(want)) && len(mism) < 20 {
					mism = append(mism, J{"case": json.RawMessage(append([]byte{}, line...)), "what": what, "got": got, "want": want})
				}
			}
			call := func(what string, want interface{}, f func() interface{}) {
				var got interface{}
				if m := safely(func() { got = f() }); m != "" {
					got = m
				}
				cmp(what, got, want)
			}
			for _, e := range c.Rune {
				ch := rune(e[0].(float64))
				call(fmt.Sprintf("ReadRune(%d, %d)", c.Pos, ch), e[1], func() interface{} {
					np, ok := rd.ReadRune(pos, ch)
					return []interface{}{int(np), ok}
				})
			}
			for _, e := range c.Str {
				s := string(toBytes(e[0]))
				call(fmt.Sprintf("MatchString(%d, %q)", c.Pos, s), e[1], func() interface{} {
					np, ok := rd.MatchString(pos, s)
					return []interface{}{int(np), ok}
				})
			}
			for _, e := range c.Word {
				s := string(toBytes(e[0]))
				call(fmt.Sprintf("MatchWord(%d, %q)", c.Pos, s), e[1], func() interface{} {
					np, ok := rd.MatchWord(pos, s)
					return []interface{}{int(np), ok}
				})
			}
			for _, e := range c.Ws {
				m := e[0].(string)
				call(fmt.Sprintf("SkipWhitespaces(%d, %s)", c.Pos, m), []interface{}{e[1], e[2]}, func() interface{} {
					np, err := rd.SkipWhitespaces(pos, rdModes[m])
					return []interface{}{int(np), wsErrJ(err)}
				})
			}
			for i, fn := range []func([]byte) ([]byte, int){rfDigits, rfPair} {
				call(fmt.Sprintf("Readf(%d, fn%d)", c.Pos, i), c.Rf[i], func() interface{} {
					np, val := rd.Readf(pos, fn)
					return []interface{}{int(np), val != nil, intsOf(val)}
				})
			}
			call("Remaining", c.Rem, func() interface{} { return rd.Remaining(pos) })
			call("IsEOF", c.Eof, func() interface{} { return rd.IsEOF(pos) })
			if len(samples) < 3 && cases%1009 == 5 {
				samples = append(samples, json.RawMessage(append([]byte{}, line...)))
			}
		})
		writeJSON(a.str("out", ""), J{"cases": cases, "comparisons": comps, "nontrivial": nontriv, "mismatches": mism, "samples": samples})
	case "gen", "rerun":
		o := newOut(a.str("out", ""))
		emitFile := func(raw []byte, base int) {
			o.put(J{"ev": "file", "raw": intsOf(raw), "base": base})
			f, _ := fileAt(raw, base)
			rd := text.NewReader(f)
			n := f.Len()
			data := make([]byte, 0, n)
			// the harness' own view of the normalised content, for the regexp oracle only
			for i := 0; i < len(raw); i++ {
				if raw[i] == '\r' && i+1 < len(raw) && raw[i+1] == '\n' {
					continue
				}
				data = append(data, raw[i])
			}
			ev := func(f string, pos int, arg interface{}, fill func(e J)) {
				e := J{"ev": "call", "f": f, "pos": pos, "arg": arg, "rx": -1, "np": 0, "ok": false, "val": []int{}, "err": []interface{}{}}
				if m := safely(func() { fill(e) }); m != "" {
					e["panic"] = m
				}
				o.put(e)
			}
			for pass := 0; pass < 2; pass++ {
				if pass == 1 {
					// the built-in literal parsers read the same file through the same reader (custom functions handed to Readf,
					// regular expressions): what the primitives return afterwards is still what the content prescribes
					ctx := parsley.NewContext(parsley.NewFileSet(), rd)
					for cur := 0; cur <= n; cur++ {
						for _, lp := range []parsley.Parser{terminal.String("s", true), terminal.Char("c"), terminal.Integer("i"), terminal.Float("f"), terminal.Word("w", "a", 1), terminal.TimeDuration("d")} {
							safely(func() { lp.Parse(ctx, pdata.EmptyIntMap, parsley.Pos(base+cur)) })
						}
					}
				}
				for cur := 0; cur <= n; cur++ {
					pos := base + cur
					p := parsley.Pos(pos)
					for _, ch := range []rune{'a', '\n', 'é', '€', 0xFFFD, 'b', 0x161, 0x10A, 0x15F, 0x1F431} { // (the last four end in the bytes of 'a', LF, '_', '1')
						ch := ch
						ev("ReadRune", pos, int(ch), func(e J) { np, ok := rd.ReadRune(p, ch); e["np"], e["ok"] = int(np), ok })
					}
					for _, s := range []string{"a", "a_", "é", "\n", " a"} {
						s := s
						ev("MatchString", pos, intsOf([]byte(s)), func(e J) { np, ok := rd.MatchString(p, s); e["np"], e["ok"] = int(np), ok })
					}
					for _, s := range []string{"a", "a_", "ab", "a1"} {
						s := s
						ev("MatchWord", pos, intsOf([]byte(s)), func(e J) { np, ok := rd.MatchWord(p, s); e["np"], e["ok"] = int(np), ok })
					}
					for _, m := range []string{"none", "spaces", "nl", "forcenl"} {
						m := m
						ev("SkipWs", pos, m, func(e J) { np, err := rd.SkipWhitespaces(p, rdModes[m]); e["np"], e["err"] = int(np), wsErrJ(err) })
					}
					ev("Remaining", pos, 0, func(e J) { e["np"] = rd.Remaining(p) })
					ev("IsEOF", pos, 0, func(e J) { e["ok"] = rd.IsEOF(p) })
					ev("Readf", pos, "digits", func(e J) { np, v := rd.Readf(p, rfDigits); e["np"], e["ok"], e["val"] = int(np), v != nil, intsOf(v) })
					ev("Readf", pos, "pair", func(e J) { np, v := rd.Readf(p, rfPair); e["np"], e["ok"], e["val"] = int(np), v != nil, intsOf(v) })
					for _, x := range rdExprs {
						x := x
						rx := -1
						if cur <= len(data) {
							if idx := regexp.MustCompile("^(?:" + x + ")").FindIndex(data[cur:]); idx != nil {
								rx = idx[1]
							}
						}
						ev("ReadRegexp", pos, x, func(e J) {
							e["rx"] = rx
							np, v := rd.ReadRegexp(p, x)
							e["np"], e["ok"], e["val"] = int(np), v != nil, intsOf(v)
						})
						ev("ReadRegexpSubmatch", pos, x, func(e J) {
							e["rx"] = rx
							np, v := rd.ReadRegexpSubmatch(p, x)
							e["np"], e["ok"] = int(np), v != nil
							if v != nil {
								e["val"] = intsOf(v[0])
							}
						})
					}
				}
			}
		}
		if mode == "rerun" {
			readLines(a.str("in", ""), func(line []byte) {
				var e struct {
					Ev   string `json:"ev"`
					Raw  []int  `json:"raw"`
					Base int    `json:"base"`
				}
				json.Unmarshal(line, &e)
				if e.Ev == "file" {
					emitFile(bytesOf(e.Raw), e.Base)
				}
			})
			o.close()
			return
		}
		r := rand.New(rand.NewSource(int64(a.num("seed", 1))))
		n, maxl := a.num("n", 10), a.num("maxlen", 60)
		alpha := []byte{'a', 'a', '_', '1', 'b', ' ', '\t', '\n', '\f', '\r', 0xC3, 0xA9, 0xE2, 0x82, 0xAC, 0xFF, '9', '\v', 0xC2, 0xA0, 0x85, 0, 0xE9}
		for c := 0; c < n; c++ {
			l := r.Intn(maxl + 1)
			raw := make([]byte, l)
			for i := range raw {
				raw[i] = alpha[r.Intn(len(alpha))]
				if i > 0 && raw[i-1] == '\r' && r.Intn(2) == 0 {
					raw[i] = '\n'
				}
				if i > 0 && raw[i-1] == 0xC3 && r.Intn(2) == 0 {
					raw[i] = 0xA9
				}
			}
			if r.Intn(3) == 0 && l > 12 {
				copy(raw[r.Intn(l-10):], []byte("\"a\\t_\\\"1\\n\""))
			}
			emitFile(raw, 1+r.Intn(40))
		}
		o.close()
		fmt.Printf("{\"files\":%d,\"events\":%d}\n", n, o.n)
	default:
		die("reader: unknown mode %q", mode)
	}
}
