package main

// C10: text.LeftTrim / RightTrim against spec/Trim.tla (property statement) and, through the probe
// traces, against the trim actions of spec/ParsleyMachine.tla

import (
	"encoding/json"
	"fmt"
	"math/rand"
	"reflect"

	"github.com/opsidian/parsley/data"
	"github.com/opsidian/parsley/parsley"
)

func init() { components["trim"] = trimMain }

type trimCase struct {
	Toks []int    `json:"toks"`
	Gaps [][]int  `json:"gaps"`
	Lm   []string `json:"lm"`
	Rm   []string `json:"rm"`
	B    int      `json:"B"`
	G    []gnode  `json:"G"`
	Exp  struct {
		Ok    bool          `json:"ok"`
		Nodes [][]int       `json:"nodes"`
		Err   []interface{} `json:"err"`
		Text  string        `json:"text"`
	} `json:"exp"`
}

var trimCache = map[string]*builtG{}

func trimGrammar(toks []int, lm, rm []string) []gnode { return trimGrammarSfx(toks, lm, rm, 0) }

// the layout of TrimMC!GrammarOf: a token is Choice(SeqOf(t, x), t) with sfx, Choice(t) without
func trimGrammarSfx(toks []int, lm, rm []string, form int) []gnode {
	k := len(toks)
	G := make([]gnode, 0, 6*k+2)
	var items []int
	for i := 0; i < k; i++ {
		b := 6 * i
		G = append(G, gnode{K: "term", Ch: toks[i], Name: termName(toks[i]), Kids: []int{}})
		G = append(G, gnode{K: "term", Ch: 'x', Name: termName('x'), Kids: []int{}})
		if form == 2 { // Choice(LeftTrim(t), LeftTrim(x)): the left trims inside the Choice
			G = append(G, gnode{K: "ltrim", Mode: lm[i], Kids: []int{b + 1}})
			G = append(G, gnode{K: "ltrim", Mode: lm[i], Kids: []int{b + 2}})
			G = append(G, gnode{K: "choice", Kids: []int{b + 3, b + 4}})
			G = append(G, gnode{K: "rtrim", Mode: rm[i], Kids: []int{b + 5}})
			items = append(items, b+6)
			continue
		}
		G = append(G, gnode{K: "seq", Mode: "of", Kids: []int{b + 1, b + 2}})
		if form == 1 {
			G = append(G, gnode{K: "choice", Kids: []int{b + 3, b + 1}})
		} else {
			G = append(G, gnode{K: "choice", Kids: []int{b + 1}})
		}
		G = append(G, gnode{K: "ltrim", Mode: lm[i], Kids: []int{b + 4}})
		G = append(G, gnode{K: "rtrim", Mode: rm[i], Kids: []int{b + 5}})
		items = append(items, b+6)
	}
	G = append(G, gnode{K: "end", Kids: []int{}})
	items = append(items, 6*k+1)
	G = append(G, gnode{K: "seq", Mode: "of", Kids: items})
	return G
}

func trimText(toks []int, gaps [][]int) []byte {
	var b []byte
	for i := 0; i <= len(toks); i++ {
		b = append(b, bytesOf(gaps[i])...)
		if i < len(toks) {
			b = append(b, byte(toks[i]))
		}
	}
	return b
}

// trimObserve runs the real grammar once directly (node / positioned error) and once through parsley.Parse (text)
func trimObserve(G []gnode, content []byte, base int, t *tracer) (obs J, events []J) {
	obs = J{"ok": false, "nodes": [][]int{}, "vals": []int{}, "err": []interface{}{}, "text": ""}
	m := safely(func() {
		// the grammar object is built once and REUSED for every input with the same modes
		kb, _ := json.Marshal(G)
		b, ok := trimCache[string(kb)]
		if !ok {
			if len(trimCache) > 256 {
				trimCache = map[string]*builtG{}
			}
			nt := &tracer{}
			b = &builtG{t: nt, ps: build(G, nt)}
			trimCache[string(kb)] = b
		}
		b.t.budget, b.t.quiet, b.t.ev, b.t.stack, b.t.count = t.budget, t.quiet, nil, nil, 0
		b.t.attempts, b.t.nfails, b.t.bodyRuns = map[[2]int]bool{}, map[[2]int]bool{}, map[[2]int]int{}
		t = b.t
		ps := b.ps
		root := ps[len(G)-1]
		f, fs := fileAt(content, base)
		ctx := parsley.NewContext(fs, readerFor(f))
		node, _, err := root.Parse(ctx, data.EmptyIntMap, f.Pos(0))
		events = t.ev
		t.quiet = true
		if err != nil {
			obs["err"] = errJ(err)
		} else if node != nil {
			obs["ok"] = true
			nodes, vals := [][]int{}, []int{}
			if nt, ok := node.(parsley.NonTerminalNode); ok {
				ch := nt.Children()
				for _, c := range ch[:len(ch)-1] {
					nodes = append(nodes, []int{int(c.Pos()), int(c.ReaderPos())})
					v := -1
					if ln, ok := c.(parsley.LiteralNode); ok {
						if rv, ok := ln.Value().(rune); ok {
							v = int(rv)
						}
					}
					vals = append(vals, v)
				}
			}
			obs["nodes"], obs["vals"] = nodes, vals
		}
		f2, fs2 := fileAt(content, base)
		ctx2 := parsley.NewContext(fs2, readerFor(f2))
		n2, e2 := parsley.Parse(ctx2, root)
		if e2 != nil {
			obs["text"] = e2.Error()
		}
		if (n2 != nil) != (node != nil && err == nil) {
			obs["panic"] = "direct call and parsley.Parse disagree on success"
		}
	})
	if m != "" {
		obs["panic"] = m
	}
	return
}

func trimMain(mode string, a args) {
	switch mode {
	case "replay":
		cases, nontriv := 0, 0
		mism := []J{}
		var samples []interface{}
		trace := newOut(a.str("trace", "/dev/null"))
		var prevLine json.RawMessage
		prevKey := ""
		readLines(a.str("in", ""), func(line []byte) {
			var c trimCase
			if err := json.Unmarshal(line, &c); err != nil {
				die("bad case: %v", err)
			}
			cases++
			key := fmt.Sprint(c.Toks, c.Lm, c.Rm)
			if key != prevKey {
				prevLine, prevKey = nil, key
			}
			myPrev := prevLine
			prevLine = json.RawMessage(append([]byte{}, line...))
			content := trimText(c.Toks, c.Gaps)
			G := c.G
			if len(G) == 0 {
				G = trimGrammar(c.Toks, c.Lm, c.Rm)
			}
			t := &tracer{budget: 100000}
			obs, events := trimObserve(G, content, c.B, t)
			if len(content) > len(c.Toks) {
				nontriv++
			}
			// expected, in global positions
			want := J{"ok": c.Exp.Ok, "nodes": [][]int{}, "err": []interface{}{}, "text": c.Exp.Text}
			if c.Exp.Ok {
				ns := [][]int{}
				for _, n := range c.Exp.Nodes {
					ns = append(ns, []int{c.B + n[0], c.B + n[1]})
				}
				want["nodes"] = ns
			} else {
				want["err"] = []interface{}{c.B + int(c.Exp.Err[0].(float64)), "ws", c.Exp.Err[1]}
			}
			bad := obs["panic"] != nil || obs["ok"] != want["ok"] || !reflect.DeepEqual(norm(obs["nodes"]), norm(want["nodes"])) ||
				!reflect.DeepEqual(norm(obs["err"]), norm(want["err"])) || obs["text"] != want["text"]
			if c.Exp.Ok && !reflect.DeepEqual(norm(obs["vals"]), norm(c.Toks)) {
				bad = true
			}
			if bad && len(mism) < 20 {
				m := J{"case": json.RawMessage(append([]byte{}, line...)), "what": fmt.Sprintf("trims on %q lm=%v rm=%v", content, c.Lm, c.Rm), "got": obs, "want": want}
				if myPrev != nil {
					m["prev"] = myPrev // the input parsed just before with the same parser object
				}
				mism = append(mism, m)
			}
			// probe trace for ParsleyTrace (conformance of the trim actions of the machine)
			cc := &caseT{G: G, W: intsOf(content), B: c.B, Adm: false, Root: len(G), Asks: []askT{{N: len(G), P: c.B}}}
			trace.put(beginLine(cc, cases))
			for _, e := range events {
				trace.put(e)
			}
			if len(samples) < 3 && cases%701 == 3 {
				samples = append(samples, J{"text": string(content), "lm": c.Lm, "rm": c.Rm, "real": obs})
			}
		})
		trace.close()
		writeJSON(a.str("out", ""), J{"cases": cases, "nontrivial": nontriv, "mismatches": mism, "samples": samples})
	case "gen", "rerun":
		o := newOut(a.str("out", ""))
		emit := func(toks []int, gaps [][]int, lm, rm []string, base int) {
			content := trimText(toks, gaps)
			t := &tracer{budget: 100000, quiet: true}
			obs, _ := trimObserve(trimGrammarSfx(toks, lm, rm, (len(content)+base)%3), content, base, t)
			e := J{"toks": toks, "gaps": gaps, "lm": lm, "rm": rm, "B": base}
			for k, v := range obs {
				e[k] = v
			}
			o.put(e)
		}
		if mode == "rerun" {
			readLines(a.str("in", ""), func(line []byte) {
				var c trimCase
				json.Unmarshal(line, &c)
				emit(c.Toks, c.Gaps, c.Lm, c.Rm, c.B)
			})
			o.close()
			return
		}
		r := rand.New(rand.NewSource(int64(a.num("seed", 1))))
		n, maxtok := a.num("n", 300), a.num("maxtok", 12)
		modes := []string{"none", "spaces", "nl", "forcenl"}
		wsb := []int{32, 32, 9, 10, 12}
		for c := 0; c < n; c++ {
			k := 1 + r.Intn(maxtok)
			toks := make([]int, k)
			lm, rm := make([]string, k), make([]string, k)
			gaps := make([][]int, k+1)
			for i := 0; i < k; i++ {
				toks[i] = 'c' + r.Intn(3)
				lm[i], rm[i] = modes[r.Intn(4)], modes[r.Intn(4)]
				if r.Intn(2) == 0 { // mostly permissive so that later tokens are reached
					lm[i] = "nl"
				}
				if r.Intn(2) == 0 {
					rm[i] = "nl"
				}
			}
			for i := range gaps {
				l := 0
				if r.Intn(3) > 0 {
					l = 1 + r.Intn(3)
				}
				g := []int{}
				for j := 0; j < l; j++ {
					if r.Intn(8) == 0 {
						g = append(g, 13, 10) // CRLF: normalised to LF by the file
					} else {
						g = append(g, wsb[r.Intn(len(wsb))])
					}
				}
				gaps[i] = g
			}
			emit(toks, gaps, lm, rm, 1+r.Intn(30))
			// the same grammar object again on other whitespace (state kept in the parser graph must not matter)
			for rep := 0; rep < 2; rep++ {
				g2 := make([][]int, len(gaps))
				for i := range g2 {
					g2[i] = gaps[i]
					if r.Intn(2) == 0 {
						g2[i] = []int{}
						for j := r.Intn(3); j > 0; j-- {
							g2[i] = append(g2[i], wsb[r.Intn(len(wsb))])
						}
					}
				}
				emit(toks, g2, lm, rm, 1)
			}
		}
		o.close()
		fmt.Printf("{\"cases\":%d}\n", n)
	default:
		die("trim: unknown mode %q", mode)
	}
}
