package main

// C14: one parser graph shared by concurrent parses; concurrent construction. Built with -race for the free-running
// mode; the gated mode replays schedules deterministically with the probes as yield points.

import (
	"encoding/json"
	"fmt"
	"math/rand"
	"sync"

	"github.com/opsidian/parsley/combinator"
	"github.com/opsidian/parsley/data"
	"github.com/opsidian/parsley/parser"
	"github.com/opsidian/parsley/parsley"
	"github.com/opsidian/parsley/text"
	"github.com/opsidian/parsley/text/terminal"
)

func init() { components["conc"] = concMain }

type concWL struct {
	name   string
	p      parsley.Parser
	eval   bool
	inputs []string
}

func lrGrammar() parsley.Parser {
	// P -> P b | x? P c | a   (left recursion, hidden left recursion, memoised), with trims and names
	var p parser.Func
	a := text.Trim(terminal.Rune('a'))
	p = combinator.Memoize(combinator.Any(
		combinator.SeqOf(&p, text.Trim(terminal.Rune('b'))),
		combinator.SeqOf(combinator.Optional(terminal.Rune('x')), &p, terminal.Rune('c')),
		a,
	).Name("P"))
	return combinator.Sentence(&p)
}

func concWorkloads() []concWL {
	return []concWL{
		{"json", jsonP, true, []string{`{"a": [1, 2.5, "x\ny"], "b": {"c": null, "d": true}}`, `[1, 2, 3`, `{"a" 1}`, `[]`, ` [ "é" , false ] `, `{"a": 9223372036854775808}`}},
		{"arith", arithP, true, []string{"1 + 2 * (3 - 4) / 5", "((7))", "1 / 0", "2 * * 3", "1 +", "10 - 2 - 3"}},
		{"leftrec", lrGrammar(), false, []string{"a b b", "xac", "abcb", "ab c", "b", "", "a\nb"}},
	}
}

func concObserve(p parsley.Parser, eval bool, in string) J {
	o := J{"in": in}
	if m := safely(func() {
		f := mkFile("f", []byte(in))
		ctx := parsley.NewContext(parsley.NewFileSet(f), text.NewReader(f))
		if eval {
			// one context, two calls (validate, then evaluate), as a caller may do; the call count is read after the first
			_, perr := parsley.Parse(ctx, p)
			o["calls"] = ctx.CallCount()
			v, err := parsley.Evaluate(ctx, p)
			o["val"] = fmt.Sprintf("%v", v)
			o["err"] = fmt.Sprintf("%v", err)
			o["perr"] = fmt.Sprintf("%v", perr)
			return
		} else {
			n, err := parsley.Parse(ctx, p)
			if n != nil {
				o["val"] = renderNode(n)
			} else {
				o["val"] = ""
			}
			o["err"] = fmt.Sprintf("%v", err)
			o["calls"] = ctx.CallCount()
			// ... and asked again on the same context
			if n2, err2 := parsley.Parse(ctx, p); n2 != nil {
				o["val2"], o["err2"] = renderNode(n2), fmt.Sprintf("%v", err2)
			} else {
				o["val2"], o["err2"] = "", fmt.Sprintf("%v", err2)
			}
		}
	}); m != "" {
		o["panic"] = m
	}
	return o
}

// ---- gated mode: probes are yield points, a schedule decides which goroutine makes the next step -----------------
type gstate struct {
	id   int
	turn chan struct{}
	done chan struct{}
	ev   []J
	sch  *gsched
}
type gsched struct {
	yield chan int // goroutine id that has just stopped at a yield point (or finished: -id-1)
}

func (g *gstate) yieldPoint() {
	if g.sch == nil {
		return
	}
	g.sch.yield <- g.id
	<-g.turn
}

func gateProbe(id int, p parsley.Parser) parser.Func {
	return func(ctx *parsley.Context, l data.IntMap, pos parsley.Pos) (parsley.Node, data.IntSet, parsley.Error) {
		g := ctx.UserContext().(*gstate)
		g.ev = append(g.ev, J{"e": "call", "n": id, "pos": int(pos), "calls": ctx.CallCount()})
		g.yieldPoint()
		n, cp, err := p.Parse(ctx, l, pos)
		g.ev = append(g.ev, J{"e": "ret", "n": id, "pos": int(pos), "res": shallow(n), "err": errJ(err), "calls": ctx.CallCount(), "cp": cp.Len()})
		g.yieldPoint()
		return n, cp, err
	}
}

// gatedGrammar: P -> P b | (x)? P c | a  with a gate probe around every node (shared by all goroutines)
func gatedGrammar() parsley.Parser {
	var p parser.Func
	k := 0
	w := func(q parsley.Parser) parsley.Parser { k++; return gateProbe(k, q) }
	a, b, c, x := w(terminal.Rune('a')), w(terminal.Rune('b')), w(terminal.Rune('c')), w(terminal.Rune('x'))
	body := w(combinator.Any(
		w(combinator.SeqOf(&p, b)),
		w(combinator.SeqOf(w(combinator.Optional(x)), &p, c)),
		a,
	))
	p = gateProbe(99, combinator.Memoize(body))
	return w(combinator.Sentence(&p))
}

func gatedRun(p parsley.Parser, inputs []string, sched []int) [][]J {
	n := len(inputs)
	gs := make([]*gstate, n)
	var sc *gsched
	if sched != nil {
		sc = &gsched{yield: make(chan int)}
	}
	for i := range gs {
		gs[i] = &gstate{id: i, turn: make(chan struct{}), done: make(chan struct{}), sch: sc}
	}
	start := func(i int) {
		go func() {
			g := gs[i]
			if sc != nil {
				<-g.turn
			}
			f := mkFile("f", []byte(inputs[i]))
			ctx := parsley.NewContext(parsley.NewFileSet(f), text.NewReader(f))
			ctx.SetUserContext(g)
			p.Parse(ctx, data.EmptyIntMap, f.Pos(0))
			if sc != nil {
				sc.yield <- -i - 1
			}
			close(g.done)
		}()
	}
	if sc == nil {
		for i := range gs {
			start(i)
			<-gs[i].done
		}
	} else {
		for i := range gs {
			start(i)
		}
		alive := map[int]bool{}
		for i := range gs {
			alive[i] = true
		}
		k := 0
		for len(alive) > 0 {
			// pick the next goroutine from the schedule (skipping finished ones), let it run to its next yield point
			g := -1
			for tries := 0; tries < len(sched)+n; tries++ {
				c := sched[k%len(sched)] % n
				k++
				if alive[c] {
					g = c
					break
				}
			}
			if g < 0 {
				for c := range alive {
					g = c
					break
				}
			}
			gs[g].turn <- struct{}{}
			if r := <-sc.yield; r < 0 {
				delete(alive, -r-1)
			}
		}
	}
	out := make([][]J, n)
	for i := range gs {
		out[i] = gs[i].ev
	}
	return out
}

func concMain(mode string, a args) {
	o := newOut(a.str("out", ""))
	r := rand.New(rand.NewSource(int64(a.num("seed", 1))))
	switch mode {
	case "free":
		// N goroutines x iterations on shared parser graphs (success and failure inputs), plus concurrent construction
		wls := concWorkloads()
		G, iters := a.num("goroutines", 8), a.num("iters", 40)
		// the concurrent phase runs COLD (nothing of the library has been used in this process before: lazily
		// initialised state is initialised under contention); the solo observations are taken afterwards
		var wg sync.WaitGroup
		// parsers constructed concurrently are later combined into ONE grammar: every Memoize must have got its own identity
		const fragsPer = 64
		startAll := make(chan struct{})
		frags := make([][]parsley.Parser, G)
		seen := make([]map[string][][]J, G) // per goroutine and workload: the distinct observation lists (at most 4)
		for g := 0; g < G; g++ {
			seen[g] = map[string][][]J{}
			wg.Add(1)
			go func(g int) {
				defer wg.Done()
				<-startAll // all goroutines construct at the same time
				for i := 0; i < fragsPer; i++ {
					frags[g] = append(frags[g], combinator.Memoize(terminal.Word("w", fmt.Sprintf("kw_%d_%d", g, i), g*1000+i)))
				}
				for it := 0; it < iters; it++ {
					for _, w := range wls {
						var obs []J
						for _, in := range w.inputs {
							obs = append(obs, concObserve(w.p, w.eval, in))
						}
						known := false
						for _, q := range seen[g][w.name] {
							known = known || eqJSON(q, obs)
						}
						if !known && len(seen[g][w.name]) < 4 {
							seen[g][w.name] = append(seen[g][w.name], obs)
						}
					}
					// construction of new parser graphs while the others parse (Memoize takes a fresh index, a regular
					// expression nobody has used before is compiled), used at once
					q := combinator.Memoize(combinator.Any(terminal.Rune('a'), terminal.Op("ab")))
					concObserve(combinator.Sentence(q), false, "ab")
					rx := terminal.Regexp("r", "ID", "identifier", fmt.Sprintf("k%dx%d[a-z]+", g, it), 0)
					if ob := concObserve(combinator.Sentence(rx), true, fmt.Sprintf("k%dx%dab", g, it)); ob["val"] != fmt.Sprintf("k%dx%dab", g, it) && len(seen[g]["fresh-regexp"]) < 2 {
						seen[g]["fresh-regexp"] = append(seen[g]["fresh-regexp"], []J{ob})
					}
					_ = arithParser()
				}
			}(g)
		}
		close(startAll)
		wg.Wait()
		solo := map[string][]J{}
		for _, w := range wls {
			for _, in := range w.inputs {
				solo[w.name] = append(solo[w.name], concObserve(w.p, w.eval, in))
			}
		}
		for g := 0; g < G; g++ {
			for _, w := range wls {
				conc := solo[w.name]
				if len(seen[g][w.name]) > 0 {
					conc = seen[g][w.name][0]
				}
				for _, q := range seen[g][w.name] {
					if !eqJSON(q, solo[w.name]) {
						conc = q
						break
					}
				}
				o.put(J{"ev": "run", "g": g, "wl": w.name, "mode": "free", "sched": []int{}, "solo": solo[w.name], "conc": conc})
			}
			for _, q := range seen[g]["fresh-regexp"] {
				o.put(J{"ev": "run", "g": g, "wl": "fresh-regexp", "mode": "free", "sched": []int{}, "solo": []J{{"in": q[0]["in"], "val": q[0]["in"], "err": "<nil>", "calls": q[0]["calls"]}}, "conc": q})
			}
		}
		var all []parsley.Parser
		for g := 0; g < G; g++ {
			all = append(all, frags[g]...)
		}
		kw := combinator.Sentence(combinator.Choice(all...))
		want, got := []J{}, []J{}
		for g := 0; g < G; g++ {
			for i := 0; i < fragsPer; i++ {
				in := fmt.Sprintf("kw_%d_%d", g, i)
				ob := J{"in": in}
				if m := safely(func() {
					f := mkFile("f", []byte(in))
					ctx := parsley.NewContext(parsley.NewFileSet(f), text.NewReader(f))
					v, err := parsley.Evaluate(ctx, kw)
					ob["val"], ob["err"] = fmt.Sprintf("%v", v), fmt.Sprintf("%v", err)
				}); m != "" {
					ob["panic"] = m
				}
				got = append(got, ob)
				want = append(want, J{"in": in, "val": fmt.Sprintf("%v", g*1000+i), "err": "<nil>"})
			}
		}
		o.put(J{"ev": "run", "g": -1, "wl": "construct", "mode": "free", "sched": []int{}, "solo": want, "conc": got})
	case "gated":
		// deterministic interleavings of 2-3 parses of one shared, probed left-recursive grammar
		p := gatedGrammar()
		n := a.num("n", 40)
		// interleavings generated by TLC from Concurrent.tla (one JSON array of process ids per line), replayed first
		var tlcScheds [][]int
		if sf := a.str("scheds", ""); sf != "" {
			readLines(sf, func(line []byte) {
				var sc []int
				if json.Unmarshal(line, &sc) == nil && len(sc) > 0 {
					tlcScheds = append(tlcScheds, sc)
				}
			})
		}
		pool := []string{"ab", "abb", "xac", "abcb", "b", "a", "xabc", ""}
		for i := 0; i < n; i++ {
			k := 2 + r.Intn(2)
			inputs := make([]string, k)
			for j := range inputs {
				inputs[j] = pool[r.Intn(len(pool))]
			}
			solo := gatedRun(p, inputs, nil)
			sched := make([]int, 12+r.Intn(40))
			for j := range sched {
				sched[j] = r.Intn(k)
				if j > 0 && r.Intn(3) == 0 {
					sched[j] = sched[j-1] // bursts
				}
			}
			if i < len(tlcScheds) {
				sched = tlcScheds[i] // process ids 1..N of the model; the harness takes them modulo the number of goroutines
			}
			conc := gatedRun(p, inputs, sched)
			for g := 0; g < k; g++ {
				o.put(J{"ev": "run", "g": g, "wl": "gated:" + inputs[g], "mode": "gated", "sched": sched, "solo": solo[g], "conc": conc[g]})
			}
		}
	default:
		die("conc: unknown mode %q", mode)
	}
	o.close()
	fmt.Printf("{\"lines\":%d}\n", o.n)
}
