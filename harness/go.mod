module pvh

go 1.16

require github.com/opsidian/parsley v0.0.0

replace github.com/opsidian/parsley => /repo
