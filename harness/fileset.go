package main

// C11: parsley.FileSet / text.File against spec/FileSet.tla

import (
	"encoding/json"
	"fmt"
	"math/rand"

	"github.com/opsidian/parsley/parsley"
	"github.com/opsidian/parsley/text"
)

func init() { components["fileset"] = filesetMain }

// buildSet: either AddFile by AddFile, or (fromList) NewFileSet(list...) from a list with spare capacity that the caller
// keeps using afterwards (appends to it, overwrites its elements): the set keeps the files it was given
func buildSet(fl []*text.File, fromList bool) *parsley.FileSet {
	if !fromList || len(fl) == 0 {
		fs := parsley.NewFileSet()
		for _, f := range fl {
			fs.AddFile(f)
		}
		return fs
	}
	k := (len(fl) + 1) / 2
	list := make([]parsley.File, k, len(fl)+4)
	for i := 0; i < k; i++ {
		list[i] = fl[i]
	}
	fs := parsley.NewFileSet(list...)
	for _, f := range fl[k:] {
		fs.AddFile(f)
		list = append(list, text.NewFile("decoy", []byte("decoy\ndecoy\n")))
	}
	for i := range list {
		list[i] = text.NewFile("decoy", []byte("d"))
	}
	return fs
}

type fsFile struct {
	Name string   `json:"name"`
	Raw  []int    `json:"raw"`
	Base int      `json:"base"`
	Len  int      `json:"len"`
	Fpos []string `json:"fpos"`
}
type fsCase struct {
	Files []fsFile `json:"files"`
	Next  int      `json:"next"`
	Q     []string `json:"q"`
}

func posString(p parsley.Position) string { return p.String() }

// a panic of the real code is an observation ("PANIC: ..."), never a crash of the harness
func fsPosition(fs *parsley.FileSet, p int) (s string) {
	if m := safely(func() { s = posString(fs.Position(parsley.Pos(p))) }); m != "" {
		return m
	}
	return s
}
func filePosition(f *text.File, o int) (s string) {
	if m := safely(func() { s = posString(f.Position(o)) }); m != "" {
		return m
	}
	return s
}

func filesetMain(mode string, a args) {
	switch mode {
	case "replay":
		cases, comps, nontriv := 0, 0, 0
		mism := []J{}
		var samples []interface{}
		add := func(c *fsCase, what string, got, want interface{}) {
			if len(mism) < 20 {
				mism = append(mism, J{"case": c, "what": what, "got": got, "want": want})
			}
		}
		readLines(a.str("in", ""), func(line []byte) {
			var c fsCase
			if err := json.Unmarshal(line, &c); err != nil {
				die("bad case: %v", err)
			}
			cases++
			if len(c.Files) > 1 {
				nontriv++
			}
			// two query orders: ascending on one fresh set (cold line tables first touched at low offsets),
			// descending on another (first touched at the end)
			for order := 0; order < 2; order++ {
				var fl []*text.File
				for _, f := range c.Files {
					fl = append(fl, mkFile(f.Name, bytesOf(f.Raw)))
				}
				fs := buildSet(fl, order == 1)
				for i, f := range c.Files {
					comps += 2
					if fl[i].Len() != f.Len {
						add(&c, fmt.Sprintf("file %d Len()", i+1), fl[i].Len(), f.Len)
					}
					if int(fl[i].Pos(0)) != f.Base {
						add(&c, fmt.Sprintf("file %d Pos(0)", i+1), int(fl[i].Pos(0)), f.Base)
					}
				}
				n := len(c.Q)
				for k := 0; k < n; k++ {
					p := k
					if order == 1 {
						p = n - 1 - k
					}
					got := fsPosition(fs, p)
					comps++
					if got != c.Q[p] {
						add(&c, fmt.Sprintf("FileSet.Position(%d) order %d", p, order), got, c.Q[p])
					}
				}
				for i, f := range c.Files {
					for k := range f.Fpos {
						o := k
						if order == 1 {
							o = len(f.Fpos) - 1 - k
						}
						got := filePosition(fl[i], o)
						comps++
						if got != f.Fpos[o] {
							add(&c, fmt.Sprintf("file %d Position(%d) order %d", i+1, o, order), got, f.Fpos[o])
						}
						if int(fl[i].Pos(o)) != f.Base+o {
							add(&c, fmt.Sprintf("file %d Pos(%d)", i+1, o), int(fl[i].Pos(o)), f.Base+o)
						}
					}
				}
				// ErrorWithPosition renders the same position
				if len(c.Q) > 2 {
					var got string
					if m := safely(func() { got = fs.ErrorWithPosition(parsley.NewErrorf(parsley.Pos(1), "E")).Error() }); m != "" {
						got = m
					}
					want := "E at " + c.Q[1]
					if c.Q[1] == "unknown" {
						want = "E"
					}
					comps++
					if got != want {
						add(&c, "ErrorWithPosition(pos 1)", got, want)
					}
				}
			}
			if len(samples) < 3 && cases%503 == 7 {
				samples = append(samples, json.RawMessage(append([]byte{}, line...)))
			}
		})
		writeJSON(a.str("out", ""), J{"cases": cases, "comparisons": comps, "nontrivial": nontriv, "mismatches": mism, "samples": samples})
	case "gen", "rerun":
		o := newOut(a.str("out", ""))
		emit := func(files []fsFile, r *rand.Rand) {
			o.put(J{"ev": "reset"})
			fs := parsley.NewFileSet()
			var fl []*text.File
			next := 1
			for _, f := range files {
				tf := mkFile(f.Name, bytesOf(f.Raw))
				fs.AddFile(tf)
				fl = append(fl, tf)
				o.put(J{"ev": "add", "name": f.Name, "raw": f.Raw, "len": tf.Len(), "base": int(tf.Pos(0))})
				next = int(tf.Pos(0)) + tf.Len() + 1
				// interleave queries with additions: earlier files must keep their answers
				for q := 0; q < 6; q++ {
					p := r.Intn(next + 2)
					o.put(J{"ev": "q", "pos": p, "s": fsPosition(fs, p)})
				}
			}
			for p := next + 1; p >= 0; p-- {
				if next > 400 && p%3 != 0 && p > 3 && p < next-3 {
					continue
				}
				o.put(J{"ev": "q", "pos": p, "s": fsPosition(fs, p)})
			}
			for i, tf := range fl {
				for k := 0; k < 12; k++ {
					off := r.Intn(tf.Len() + 3)
					o.put(J{"ev": "fq", "file": i + 1, "off": off, "pos": int(tf.Pos(off)), "s": filePosition(tf, off)})
				}
			}
		}
		if mode == "rerun" {
			// re-execute the file set of a recorded rejected trace
			var files []fsFile
			readLines(a.str("in", ""), func(line []byte) {
				var e struct {
					Ev   string `json:"ev"`
					Name string `json:"name"`
					Raw  []int  `json:"raw"`
				}
				json.Unmarshal(line, &e)
				if e.Ev == "add" {
					files = append(files, fsFile{Name: e.Name, Raw: e.Raw})
				}
			})
			emit(files, rand.New(rand.NewSource(1)))
			o.close()
			return
		}
		r := rand.New(rand.NewSource(int64(a.num("seed", 1))))
		n, maxf, maxl := a.num("n", 20), a.num("maxfiles", 8), a.num("maxlen", 300)
		alpha := []int{'a', 'b', 10, 13, 10, 13, ' '}
		for c := 0; c < n; c++ {
			nf := r.Intn(maxf + 1)
			var files []fsFile
			for i := 0; i < nf; i++ {
				l := r.Intn(maxl + 1)
				if r.Intn(4) == 0 {
					l = r.Intn(4)
				}
				raw := make([]int, l)
				for k := range raw {
					raw[k] = alpha[r.Intn(len(alpha))]
					if k > 0 && raw[k-1] == 13 && r.Intn(2) == 0 {
						raw[k] = 10
					}
				}
				// multi-byte runes and invalid UTF-8: columns count bytes
				if l > 0 && r.Intn(2) == 0 {
					for _, u := range [][]int{{0xc3, 0xa9}, {0xe4, 0xb8, 0x96}, {0xf0, 0x9f, 0x8d, 0x95}, {0xff}, {0xc3}} {
						for c := r.Intn(3); c > 0; c-- {
							at := r.Intn(l)
							for q := 0; q < len(u) && at+q < l; q++ {
								raw[at+q] = u[q]
							}
						}
					}
				}
				name := fmt.Sprintf("f%d", i+1)
				if r.Intn(6) == 0 {
					name = ""
				}
				files = append(files, fsFile{Name: name, Raw: raw})
			}
			emit(files, r)
		}
		o.close()
		fmt.Printf("{\"filesets\":%d,\"events\":%d}\n", n, o.n)
	default:
		die("fileset: unknown mode %q", mode)
	}
}
