package main

// C12: the same content parsed alone and after arbitrary preceding files of a file set

import (
	"encoding/json"
	"fmt"
	"math/rand"
	"strings"

	"github.com/opsidian/parsley/ast"
	"github.com/opsidian/parsley/combinator"
	"github.com/opsidian/parsley/data"
	jsonex "github.com/opsidian/parsley/examples/json/json"
	"github.com/opsidian/parsley/parsley"
	"github.com/opsidian/parsley/text"
	"github.com/opsidian/parsley/text/terminal"
)

func init() { components["place"] = placeMain }

func genericTree(n parsley.Node) []interface{} {
	val := ""
	kids := []interface{}{}
	switch v := n.(type) {
	case parsley.NonTerminalNode:
		for _, c := range v.Children() {
			kids = append(kids, genericTree(c))
		}
	case parsley.LiteralNode:
		val = fmt.Sprintf("%v", v.Value())
	}
	return []interface{}{n.Token(), int(n.Pos()), int(n.ReaderPos()), val, kids}
}

// fileAfter places content after the given preceding files
// variant bit 0: the reader is created BEFORE the file is added to the set (as the repository's own benchmark does);
// variant bit 1: a position inside an earlier file is rendered before the parse (history on the same file set)
func fileAfter(content []byte, pre [][]byte, variant int) (*text.File, *parsley.FileSet, *text.Reader, int) {
	fs := parsley.NewFileSet()
	for i, p := range pre {
		fs.AddFile(mkFile(fmt.Sprintf("pre%d", i), p))
	}
	f := mkFile("f", content)
	var rd *text.Reader
	if variant&1 == 1 {
		rd = text.NewReader(f)
		_ = rd.IsEOF(f.Pos(0)) // the reader and the file are used before the file has its place
	}
	fs.AddFile(f)
	if rd == nil {
		rd = text.NewReader(f)
	}
	if variant&2 == 2 && len(pre) > 0 {
		_ = fs.Position(parsley.Pos(1)).String()
	}
	return f, fs, rd, int(f.Pos(0))
}

var placeVariant int
var nbig int

// large preceding files are recorded by their size only: [-1, size] stands for size bytes 'a' with a line feed every 61 bytes
func bigFile(size int) []byte {
	b := make([]byte, size)
	for i := range b {
		b[i] = 'a'
		if i%61 == 60 {
			b[i] = '\n'
		}
	}
	return b
}

func preJ(pre [][]byte) [][]int {
	pj := [][]int{}
	for _, x := range pre {
		if len(x) > 4096 {
			pj = append(pj, []int{-1, len(x)})
		} else {
			pj = append(pj, intsOf(x))
		}
	}
	return pj
}

func preBytes(x []int) []byte {
	if len(x) == 2 && x[0] == -1 {
		return bigFile(x[1])
	}
	return bytesOf(x)
}

func placeObserve(p parsley.Parser, content []byte, pre [][]byte, eval bool) (J, int) {
	o := J{"ok": false, "trees": []interface{}{}, "err": []interface{}{}, "text": "", "val": "", "calls": 0}
	base := 0
	if m := safely(func() {
		f, fs, rd, b := fileAfter(content, pre, placeVariant)
		base = b
		ctx := parsley.NewContext(fs, rd)
		node, _, err := p.Parse(ctx, data.EmptyIntMap, f.Pos(0))
		o["calls"] = ctx.CallCount()
		if err != nil {
			o["err"] = errJ(err)
		}
		if node != nil {
			o["ok"] = err == nil
			tr := []interface{}{}
			for _, x := range altsOf(node) {
				tr = append(tr, genericTree(x))
			}
			o["trees"] = tr
		}
		_, fs2, rd2, _ := fileAfter(content, pre, placeVariant)
		ctx2 := parsley.NewContext(fs2, rd2)
		if eval {
			v, e2 := parsley.Evaluate(ctx2, p)
			if e2 != nil {
				o["text"] = e2.Error()
			} else {
				b, _ := json.Marshal(v)
				o["val"] = string(b)
			}
		} else {
			_, e2 := parsley.Parse(ctx2, p)
			if e2 != nil {
				o["text"] = e2.Error()
			}
		}
	}); m != "" {
		o["panic"] = m
	}
	return o, base
}

type workload struct {
	name string
	p    parsley.Parser
	eval bool
	gen  func(r *rand.Rand) []byte
}

func randJSON(r *rand.Rand, depth int) string {
	ws := func() string { return []string{"", "", " ", "\n", "  "}[r.Intn(5)] }
	switch x := r.Intn(8); {
	case depth > 2 || x < 2:
		return []string{"1", "-12", "3.5", "true", "false", "null", `"a"`, `"x\ny"`, `""`, "0"}[r.Intn(10)]
	case x < 5:
		n := r.Intn(4)
		parts := []string{}
		for i := 0; i < n; i++ {
			parts = append(parts, ws()+randJSON(r, depth+1))
		}
		return "[" + strings.Join(parts, ",") + ws() + "]"
	default:
		n := r.Intn(3)
		parts := []string{}
		for i := 0; i < n; i++ {
			parts = append(parts, ws()+fmt.Sprintf(`"k%d"`, r.Intn(3))+":"+ws()+randJSON(r, depth+1))
		}
		return "{" + strings.Join(parts, ",") + ws() + "}"
	}
}

func mutate(r *rand.Rand, b []byte) []byte {
	if len(b) == 0 || r.Intn(3) > 0 {
		return b
	}
	k := r.Intn(len(b))
	switch r.Intn(3) {
	case 0:
		return append(append([]byte{}, b[:k]...), b[k+1:]...)
	case 1:
		return b[:k]
	default:
		c := append([]byte{}, b...)
		c[k] = "x ]}\n,"[r.Intn(6)]
		return c
	}
}

func placeWorkloads() []workload {
	ws := []workload{
		{"json", combinator.Sentence(text.Trim(jsonex.NewParser())), true, func(r *rand.Rand) []byte {
			return mutate(r, []byte(randJSON(r, 0)+[]string{"", "\n", " "}[r.Intn(3)]))
		}},
		{"arith", arithP, true, func(r *rand.Rand) []byte {
			for {
				x := genExpr(r, 0, 2+r.Intn(5), r.Intn(3))
				if _, ok := x.eval(); ok {
					return mutate(r, renderTokens(r, x.tokens(0, false), false))
				}
			}
		}},
	}
	lit := func(name string, p parsley.Parser, samples []string) {
		ws = append(ws, workload{"lit-" + name, p, false, func(r *rand.Rand) []byte {
			s := samples[r.Intn(len(samples))]
			return mutate(r, []byte(s+[]string{"", " x", "\n", "."}[r.Intn(4)]))
		}})
	}
	lit("integer", terminal.Integer("i"), []string{"12", "-7", "0x1F", "017", "+3", "9223372036854775808", "1.5"})
	lit("float", terminal.Float("f"), []string{"1.5", "-0.25", ".5", "1.2e5", "1.2e3456", "1."})
	lit("string", terminal.String("s", true), []string{`"abc"`, `"a\nb"`, "`raw`", `"unterminated`, `"\q"`, `""`})
	lit("char", terminal.Char("c"), []string{`'a'`, `'\n'`, `'\x41'`, `'ab'`, `''`, `'é'`})
	lit("bool", terminal.Bool("b", "true", "false"), []string{"true", "false", "truex", "tru"})
	lit("nil", terminal.Nil("n", "nil"), []string{"nil", "nill", "ni"})
	lit("word", terminal.Word("w", "foo", 1), []string{"foo", "foo_", "fo", "foo bar"})
	lit("op", terminal.Op("=="), []string{"==", "=", "==="})
	lit("rune", terminal.Rune('é'), []string{"é", "e", "éé"})
	lit("regexp", terminal.Regexp("r", "ID", "identifier", "[a-z]+([0-9]*)", 1), []string{"abc12", "abc", "12", "a1b"})
	lit("duration", terminal.TimeDuration("d"), []string{"1h30m", "1.5s", "10", "5ms", "-2h"})
	return ws
}

func placeMain(mode string, a args) {
	if mode != "gen" && mode != "rerun" {
		die("place: unknown mode %q", mode)
	}
	o := newOut(a.str("out", ""))
	r := rand.New(rand.NewSource(int64(a.num("seed", 1))))
	wls := placeWorkloads()
	emit := func(wl string, p parsley.Parser, eval bool, content []byte, pre [][]byte) {
		placeVariant = r.Intn(4)
		oa, ba := placeObserve(p, content, nil, eval)
		ob, bb := placeObserve(p, content, pre, eval)
		o.put(J{"wl": wl, "d": bb - ba, "content": intsOf(content), "pre": preJ(pre), "a": oa, "b": ob})
	}
	randPre := func() [][]byte {
		k := 1 + r.Intn(3)
		var pre [][]byte
		for i := 0; i < k; i++ {
			b := make([]byte, r.Intn(40))
			for j := range b {
				b[j] = "ab \n\r{}1"[r.Intn(8)]
			}
			pre = append(pre, b)
		}
		// a large file in front: base offsets beyond 2^20 / 2^24
		if nbig++; nbig%7 == 3 {
			pre = append(pre, bigFile([]int{1<<20 + r.Intn(9), 3<<20 + 1, 1<<24 + 5}[r.Intn(3)]))
		}
		return pre
	}
	if mode == "rerun" {
		byName := map[string]workload{}
		for _, w := range wls {
			byName[w.name] = w
		}
		readLines(a.str("in", ""), func(line []byte) {
			var c struct {
				Wl      string  `json:"wl"`
				Content []int   `json:"content"`
				Pre     [][]int `json:"pre"`
				G       []gnode `json:"G"`
			}
			json.Unmarshal(line, &c)
			var pre [][]byte
			for _, x := range c.Pre {
				pre = append(pre, preBytes(x))
			}
			if w, ok := byName[c.Wl]; ok {
				emit(c.Wl, w.p, w.eval, bytesOf(c.Content), pre)
			} else if c.G != nil {
				t := &tracer{quiet: true, budget: 1 << 30}
				ps := build(c.G, t)
				emit(c.Wl, ps[len(c.G)-1], false, bytesOf(c.Content), pre)
			}
		})
		o.close()
		return
	}
	n := a.num("n", 200)
	for i := 0; i < n; i++ {
		w := wls[i%len(wls)]
		emit(w.name, w.p, w.eval, w.gen(r), randPre())
	}
	// token sequences with trimming
	modes := []string{"none", "spaces", "nl", "forcenl"}
	for i := 0; i < n/4; i++ {
		k := 1 + r.Intn(5)
		toks, lm, rm := make([]int, k), make([]string, k), make([]string, k)
		gaps := make([][]int, k+1)
		for j := 0; j < k; j++ {
			toks[j], lm[j], rm[j] = 'c'+r.Intn(3), modes[r.Intn(4)], modes[r.Intn(4)]
			if r.Intn(2) == 0 {
				lm[j], rm[j] = "nl", "nl"
			}
		}
		for j := range gaps {
			g := []int{}
			for q := r.Intn(3); q > 0; q-- {
				g = append(g, []int{32, 10, 9, 12}[r.Intn(4)])
			}
			gaps[j] = g
		}
		t := &tracer{quiet: true, budget: 1 << 30}
		G := trimGrammar(toks, lm, rm)
		ps := build(G, t)
		o2 := o.n
		txt := trimText(toks, gaps)
		if r.Intn(2) == 0 {
			// a token that is not the expected one: the operand of a trim fails in front of / behind whitespace
			if q := mutate(r, txt); len(q) != len(txt) || r.Intn(2) == 0 {
				txt = q
			} else if len(txt) > 0 {
				txt = append([]byte{}, txt...)
				for tries := 0; tries < 8; tries++ {
					if k := r.Intn(len(txt)); txt[k] >= 'c' && txt[k] <= 'e' {
						txt[k] = 'z'
						break
					}
				}
			}
		}
		emit("trim", ps[len(G)-1], false, txt, randPre())
		_ = o2
	}
	// left-recursive grammars: Remaining enters curtailment, a base-dependent Remaining changes results or work
	opts := genOpts{maxNT: 3, named: 2, share: true, alphabet: []int{97, 98}}
	made := 0
	for tries := 0; made < n/3 && tries < n*50; tries++ {
		G, root, _ := genGrammar(r, opts)
		if adm, _ := admissibleG(G); !adm {
			continue
		}
		w := randInput(r, opts.alphabet, 6)
		c := &caseT{G: G, W: w, B: 1, Adm: true, Root: root, Asks: []askT{{N: root, P: 1}}}
		if pre := runOnce(c, runOpts{budget: 3000, quiet: true}, true); pre.over {
			continue
		}
		t := &tracer{quiet: true, budget: 1 << 30}
		ps := build(G, t)
		pre := randPre()
		placeVariant = r.Intn(4)
		oa, ba := placeObserve(ps[root-1], bytesOf(w), nil, false)
		ob, bb := placeObserve(ps[root-1], bytesOf(w), pre, false)
		o.put(J{"wl": "leftrec", "d": bb - ba, "content": w, "pre": preJ(pre), "G": G, "a": oa, "b": ob})
		made++
	}
	o.close()
	fmt.Printf("{\"cases\":%d}\n", o.n)
}

var _ = ast.EmptyNode(0)
