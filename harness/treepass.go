package main

// C13: parsley.Walk / StaticCheck / Transform / EvaluateNode on real ast nodes against spec/TreePass.tla

import (
	"encoding/json"
	"fmt"
	"math/rand"
	"reflect"
	"strconv"
	"strings"

	"github.com/opsidian/parsley/ast"
	"github.com/opsidian/parsley/data"
	"github.com/opsidian/parsley/parser"
	"github.com/opsidian/parsley/parsley"
	"github.com/opsidian/parsley/text"
)

func init() { components["treepass"] = treepassMain }

type tpNode struct {
	K    string `json:"k"`
	Cap  string `json:"cap"`
	Kids []int  `json:"kids"`
}

type tpRec struct {
	log    []int
	failAt int
	tag    string // schema tag of the checkers ("s" unless set)
}

func tpID(n parsley.Node) int {
	switch v := n.(type) {
	case ast.NodeList:
		return 0
	case ast.EmptyNode:
		_ = v
		return -1 // an empty node is a value (its position): it has no identity of its own
	}
	id, err := strconv.Atoi(n.Token()[1:])
	if err != nil {
		return -1
	}
	return id
}

func schemaStr(n parsley.Node) string {
	if s, ok := n.Schema().(string); ok {
		return s
	}
	return ""
}

// the four interpreter capabilities
type plainI struct{ r *tpRec }
type checkerI struct{ plainI }

// blockNode: a user-defined non-terminal that is also parsley.Walkable: its own Walk visits a header node first, then the
// children, then itself (a node type of an application, e.g. a block with header nodes that are not among its children)
type blockNode struct {
	*ast.NonTerminalNode
	hdr parsley.Node
}

func (b *blockNode) Walk(f func(n parsley.Node) bool) bool {
	if parsley.Walk(b.hdr, f) {
		return true
	}
	for _, c := range b.Children() {
		if parsley.Walk(c, f) {
			return true
		}
	}
	return false // (parsley.Walk applies f to the node itself after the node's own Walk)
}

// keepI: a transformer that returns the very node it was given
type keepI struct{ plainI }

func (k keepI) TransformNode(ctx interface{}, n parsley.Node) (parsley.Node, parsley.Error) {
	id := tpID(n)
	k.r.log = append(k.r.log, id)
	if id == k.r.failAt {
		return nil, parsley.NewErrorf(n.Pos(), "transform failed at %d", id)
	}
	return n, nil
}

type transformerI struct{ plainI }
type bothI struct{ plainI }

func (p plainI) Eval(ctx interface{}, n parsley.NonTerminalNode) (interface{}, parsley.Error) {
	id := tpID(n)
	p.r.log = append(p.r.log, id)
	if id == p.r.failAt {
		return nil, parsley.NewErrorf(n.Pos(), "eval failed at %d", id)
	}
	vals := []string{}
	for _, c := range n.Children() {
		v, err := parsley.EvaluateNode(ctx, c)
		if err != nil {
			return nil, err
		}
		vals = append(vals, fmt.Sprint(v))
	}
	return fmt.Sprintf("v%d(%s)", id, strings.Join(vals, ",")), nil
}
func (p plainI) check(n parsley.NonTerminalNode) (interface{}, parsley.Error) {
	id := tpID(n)
	p.r.log = append(p.r.log, id)
	if id == p.r.failAt {
		return nil, parsley.NewErrorf(n.Pos(), "check failed at %d", id)
	}
	ks := []string{}
	for _, c := range n.Children() {
		ks = append(ks, schemaStr(c))
	}
	tag := p.r.tag
	if tag == "" {
		tag = "s"
	}
	return fmt.Sprintf("%s%d(%s)", tag, id, strings.Join(ks, ",")), nil
}
func (p plainI) transform(n parsley.Node) (parsley.Node, parsley.Error) {
	id := tpID(n)
	p.r.log = append(p.r.log, id)
	if id == p.r.failAt {
		return nil, parsley.NewErrorf(n.Pos(), "transform failed at %d", id)
	}
	return ast.NewTerminalNode("t", "x"+strconv.Itoa(id), id, n.Pos(), n.ReaderPos()), nil
}
func (c checkerI) StaticCheck(ctx interface{}, n parsley.NonTerminalNode) (interface{}, parsley.Error) {
	return c.check(n)
}
func (t transformerI) TransformNode(ctx interface{}, n parsley.Node) (parsley.Node, parsley.Error) {
	return t.transform(n)
}
func (b bothI) StaticCheck(ctx interface{}, n parsley.NonTerminalNode) (interface{}, parsley.Error) {
	return b.check(n)
}
func (b bothI) TransformNode(ctx interface{}, n parsley.Node) (parsley.Node, parsley.Error) {
	return b.transform(n)
}

func tpBuild(tree []tpNode, rec *tpRec) (root parsley.Node, nodes []parsley.Node) {
	nodes = make([]parsley.Node, len(tree))
	cur := parsley.Pos(1) // positions as a parser would assign them: terminals are one byte wide, everything else is zero-width
	var mk func(i int) parsley.Node
	mk = func(i int) parsley.Node {
		nd := tree[i-1]
		pos := cur
		var n parsley.Node
		switch nd.K {
		case "term":
			n = ast.NewTerminalNode("t", "t"+strconv.Itoa(i), i, pos, pos+1)
			cur++
		case "empty":
			n = ast.EmptyNode(pos)
		default:
			var in parsley.Interpreter
			base := plainI{rec}
			switch nd.Cap {
			case "none":
				in = nil
			case "keep":
				in = keepI{base}
			case "checker":
				in = checkerI{base}
			case "transformer":
				in = transformerI{base}
			case "both":
				in = bothI{base}
			default:
				in = base
			}
			if len(nd.Kids) == 0 {
				n = ast.NewEmptyNonTerminalNode("n"+strconv.Itoa(i), pos, in)
			} else {
				kids := make([]parsley.Node, len(nd.Kids))
				for k, c := range nd.Kids {
					kids[k] = mk(c)
				}
				n = ast.NewNonTerminalNode("n"+strconv.Itoa(i), kids, in)
			}
		}
		if nd.K == "blk" {
			n = &blockNode{n.(*ast.NonTerminalNode), ast.NewTerminalNode("h", "h"+strconv.Itoa(1000+i), 1000+i, pos, pos)}
		}
		nodes[i-1] = n
		return n
	}
	root = mk(1)
	return
}

// tpBuild2: like tpBuild, but transformers and checkers record into different logs (parsley.Parse runs both passes)
func tpBuild2(tree []tpNode, trec, crec *tpRec) (parsley.Node, []parsley.Node) {
	nodes := make([]parsley.Node, len(tree))
	cur := parsley.Pos(1)
	var mk func(i int) parsley.Node
	mk = func(i int) parsley.Node {
		nd := tree[i-1]
		pos := cur
		var n parsley.Node
		switch nd.K {
		case "term":
			n = ast.NewTerminalNode("t", "t"+strconv.Itoa(i), i, pos, pos+1)
			cur++
		case "empty":
			n = ast.EmptyNode(pos)
		default:
			var in parsley.Interpreter
			switch nd.Cap {
			case "none":
				in = nil
			case "keep":
				in = keepI{plainI{trec}}
			case "checker":
				in = checkerI{plainI{crec}}
			case "transformer":
				in = transformerI{plainI{trec}}
			case "both":
				in = both2I{plainI{trec}, plainI{crec}}
			default:
				in = plainI{crec}
			}
			if len(nd.Kids) == 0 {
				n = ast.NewEmptyNonTerminalNode("n"+strconv.Itoa(i), pos, in)
			} else {
				kids := make([]parsley.Node, len(nd.Kids))
				for k, c := range nd.Kids {
					kids[k] = mk(c)
				}
				n = ast.NewNonTerminalNode("n"+strconv.Itoa(i), kids, in)
			}
		}
		if nd.K == "blk" {
			n = &blockNode{n.(*ast.NonTerminalNode), ast.NewTerminalNode("h", "h"+strconv.Itoa(1000+i), 1000+i, pos, pos)}
		}
		nodes[i-1] = n
		return n
	}
	return mk(1), nodes
}

// both2I: transformer and checker capabilities with separate recorders
type both2I struct {
	t plainI
	c plainI
}

func (b both2I) Eval(ctx interface{}, n parsley.NonTerminalNode) (interface{}, parsley.Error) {
	return b.c.Eval(ctx, n)
}
func (b both2I) StaticCheck(ctx interface{}, n parsley.NonTerminalNode) (interface{}, parsley.Error) {
	return b.c.check(n)
}
func (b both2I) TransformNode(ctx interface{}, n parsley.Node) (parsley.Node, parsley.Error) {
	return b.t.transform(n)
}

func tpRender(n parsley.Node) string {
	switch v := n.(type) {
	case ast.EmptyNode:
		return "e"
	case parsley.NonTerminalNode:
		ks := []string{}
		for _, c := range v.Children() {
			ks = append(ks, tpRender(c))
		}
		return n.Token() + "(" + strings.Join(ks, ",") + ")"
	}
	return n.Token()
}

func nz(l []int) []int {
	if l == nil {
		return []int{}
	}
	return l
}

// tpObserve runs the four passes on fresh real trees
func tpObserve(tree []tpNode, list bool, stopK, failAt int) J {
	obs := J{}
	// Walk
	m := safely(func() {
		rec := &tpRec{}
		root, _ := tpBuild(tree, rec)
		var top parsley.Node = root
		if list {
			top = ast.NodeList{root, ast.NewTerminalNode("t", "t99999", 0, 1, 2)}
		}
		cnt := 0
		stopped := parsley.Walk(top, func(n parsley.Node) bool {
			rec.log = append(rec.log, tpID(n))
			cnt++
			return cnt == stopK
		})
		obs["walk"] = J{"log": nz(rec.log), "stopped": stopped}
	})
	if m != "" {
		obs["panic"] = m
	}
	if list || stopK != 0 {
		return obs
	}
	m = safely(func() {
		rec := &tpRec{failAt: failAt}
		root, nodes := tpBuild(tree, rec)
		err := parsley.StaticCheck(nil, root)
		sc := make([]string, len(nodes))
		for i, n := range nodes {
			sc[i] = schemaStr(n)
		}
		obs["check"] = J{"log": nz(rec.log), "failed": err != nil, "schemas": sc}
		// a second pass over the SAME node objects: the checkers answer with another tag now, none fails
		rec.log, rec.failAt, rec.tag = nil, 0, "r"
		err2 := parsley.StaticCheck(nil, root)
		sc2 := make([]string, len(nodes))
		for i, n := range nodes {
			sc2[i] = schemaStr(n)
		}
		obs["check2"] = J{"log": nz(rec.log), "failed": err2 != nil, "schemas": sc2}
		rec = &tpRec{failAt: failAt}
		root, _ = tpBuild(tree, rec)
		res, terr := parsley.Transform(nil, root)
		r := ""
		if terr == nil && res != nil {
			r = tpRender(res)
		}
		obs["transform"] = J{"log": nz(rec.log), "failed": terr != nil, "result": r}
		// parsley.Parse with transformation and static checking enabled, on a parser that returns this tree:
		// api1: the transformer of node failAt fails; api2: the checker of node failAt fails
		api := J{}
		for variant := 1; variant <= 2; variant++ {
			trec, crec := &tpRec{}, &tpRec{}
			if variant == 1 {
				trec.failAt = failAt
			} else {
				crec.failAt = failAt
			}
			// two recorders: transformers log into trec, checkers into crec
			root, _ = tpBuild2(tree, trec, crec)
			f := text.NewFile("f", []byte("x"))
			ctx := parsley.NewContext(parsley.NewFileSet(f), text.NewReader(f))
			ctx.EnableTransformation()
			ctx.EnableStaticCheck()
			pr := parser.Func(func(c *parsley.Context, l data.IntMap, pos parsley.Pos) (parsley.Node, data.IntSet, parsley.Error) {
				return root, data.EmptyIntSet, nil
			})
			node, perr := parsley.Parse(ctx, pr)
			k := strconv.Itoa(variant)
			api["tlog"+k], api["clog"+k], api["failed"+k] = nz(trec.log), nz(crec.log), perr != nil
			if (node == nil) == (perr == nil) {
				api["failed"+k] = "neither or both of node and error"
			}
		}
		obs["api"] = api
		evaluable := true
		for _, nd := range tree {
			if (nd.K == "nt" || nd.K == "blk") && nd.Cap == "none" {
				evaluable = false
			}
		}
		if !evaluable {
			obs["eval"] = J{"log": []int{}, "failed": false, "skip": true}
			obs["eval2"] = J{"log": []int{}, "failed": false}
			return
		}
		rec = &tpRec{failAt: failAt}
		root, _ = tpBuild(tree, rec)
		_, eerr := parsley.EvaluateNode(nil, root)
		obs["eval"] = J{"log": nz(rec.log), "failed": eerr != nil, "skip": false}
		// a second evaluation of the same node objects, no failure this time
		rec.log, rec.failAt = nil, 0
		_, eerr2 := parsley.EvaluateNode(nil, root)
		obs["eval2"] = J{"log": nz(rec.log), "failed": eerr2 != nil}
	})
	if m != "" {
		obs["panic"] = m
	}
	return obs
}

func treepassMain(mode string, a args) {
	switch mode {
	case "replay":
		type pass struct {
			FailAt    int `json:"failAt"`
			Check     J   `json:"check"`
			Check2    J   `json:"check2"`
			Eval2     J   `json:"eval2"`
			Api       J   `json:"api"`
			Transform J   `json:"transform"`
			Eval      J   `json:"eval"`
		}
		type tcase struct {
			Tree   []tpNode `json:"tree"`
			List   bool     `json:"list"`
			StopK  int      `json:"stopK"`
			Walk   J        `json:"walk"`
			Passes []pass   `json:"passes"`
		}
		cases, comps, nontriv := 0, 0, 0
		mism := []J{}
		var samples []interface{}
		readLines(a.str("in", ""), func(line []byte) {
			var c tcase
			if err := json.Unmarshal(line, &c); err != nil {
				die("bad case: %v", err)
			}
			cases++
			if len(c.Tree) > 2 {
				nontriv++
			}
			cmp := func(what string, got, want interface{}) {
				comps++
				if !reflect.DeepEqual(norm(got), norm(want)) && len(mism) < 20 {
					mism = append(mism, J{"case": J{"tree": c.Tree, "list": c.List, "stopK": c.StopK}, "what": what, "got": got, "want": want})
				}
			}
			obs := tpObserve(c.Tree, c.List, c.StopK, 0)
			if obs["panic"] != nil {
				cmp("panic", obs["panic"], "")
			}
			cmp(fmt.Sprintf("Walk stopK=%d list=%v", c.StopK, c.List), obs["walk"], c.Walk)
			for _, p := range c.Passes {
				o := obs
				if p.FailAt != 0 {
					o = tpObserve(c.Tree, false, 0, p.FailAt)
				}
				if o["panic"] != nil {
					cmp("panic", o["panic"], "")
					continue
				}
				cmp(fmt.Sprintf("StaticCheck failAt=%d", p.FailAt), o["check"], p.Check)
				cmp(fmt.Sprintf("second StaticCheck over the same nodes after failAt=%d", p.FailAt), o["check2"], p.Check2)
				cmp(fmt.Sprintf("Transform failAt=%d", p.FailAt), o["transform"], p.Transform)
				cmp(fmt.Sprintf("Evaluate failAt=%d", p.FailAt), o["eval"], p.Eval)
				cmp(fmt.Sprintf("second Evaluate over the same nodes after failAt=%d", p.FailAt), o["eval2"], p.Eval2)
				cmp(fmt.Sprintf("Parse with transformation+static check, failAt=%d", p.FailAt), o["api"], p.Api)
			}
			if len(samples) < 3 && cases%307 == 11 {
				samples = append(samples, json.RawMessage(append([]byte{}, line...)))
			}
		})
		writeJSON(a.str("out", ""), J{"cases": cases, "comparisons": comps, "nontrivial": nontriv, "mismatches": mism, "samples": samples})
	case "gen", "rerun":
		o := newOut(a.str("out", ""))
		emit := func(tree []tpNode, list bool, stopK, failAt int) {
			e := J{"tree": tree, "list": list, "stopK": stopK, "failAt": failAt}
			for k, v := range tpObserve(tree, list, stopK, failAt) {
				e[k] = v
			}
			o.put(e)
		}
		if mode == "rerun" {
			readLines(a.str("in", ""), func(line []byte) {
				var c struct {
					Tree   []tpNode `json:"tree"`
					List   bool     `json:"list"`
					StopK  int      `json:"stopK"`
					FailAt int      `json:"failAt"`
				}
				json.Unmarshal(line, &c)
				emit(c.Tree, c.List, c.StopK, c.FailAt)
			})
			o.close()
			return
		}
		r := rand.New(rand.NewSource(int64(a.num("seed", 1))))
		n, maxn := a.num("n", 60), a.num("maxnodes", 200)
		caps := []string{"plain", "checker", "transformer", "both", "none", "keep"}
		for c := 0; c < n; c++ {
			sz := 1 + r.Intn(maxn)
			tree := make([]tpNode, sz)
			for i := range tree {
				tree[i] = tpNode{Kids: []int{}}
			}
			deep := r.Intn(3) == 0
			for i := 2; i <= sz; i++ {
				p := 1 + r.Intn(i-1)
				if deep && r.Intn(3) > 0 {
					p = i - 1
				}
				tree[p-1].Kids = append(tree[p-1].Kids, i)
			}
			for i := range tree {
				if len(tree[i].Kids) > 0 {
					tree[i].K, tree[i].Cap = "nt", caps[r.Intn(len(caps))]
					if r.Intn(5) == 0 {
						tree[i].K = "blk" // a user-defined node type with its own Walk
					}
					if r.Intn(3) > 0 && tree[i].Cap == "transformer" {
						tree[i].Cap = "checker" // transformers cut the recursion: keep most trees deep
					}
				} else {
					switch r.Intn(5) {
					case 0:
						tree[i].K = "empty"
					case 1:
						tree[i].K, tree[i].Cap = "nt", caps[r.Intn(5)]
					default:
						tree[i].K = "term"
					}
				}
			}
			switch r.Intn(3) {
			case 0:
				emit(tree, r.Intn(2) == 0, r.Intn(sz+3), 0)
			default:
				emit(tree, false, 0, r.Intn(sz+1))
			}
		}
		o.close()
		fmt.Printf("{\"cases\":%d}\n", n)
	default:
		die("treepass: unknown mode %q", mode)
	}
}
