package main

// C05: the classic left-recursive arithmetic grammar built from the real combinators, against spec/Arith.tla

import (
	"encoding/json"
	"fmt"
	"math/rand"
	"strings"

	"github.com/opsidian/parsley/ast"
	"github.com/opsidian/parsley/ast/interpreter"
	"github.com/opsidian/parsley/combinator"
	"github.com/opsidian/parsley/parser"
	"github.com/opsidian/parsley/parsley"
	"github.com/opsidian/parsley/text"
	"github.com/opsidian/parsley/text/terminal"
)

func init() { components["arith"] = arithMain }

var binop = ast.InterpreterFunc(func(ctx interface{}, node parsley.NonTerminalNode) (interface{}, parsley.Error) {
	ch := node.Children()
	lv, err := parsley.EvaluateNode(ctx, ch[0])
	if err != nil {
		return nil, err
	}
	rv, err := parsley.EvaluateNode(ctx, ch[2])
	if err != nil {
		return nil, err
	}
	l, r := lv.(int64), rv.(int64)
	switch ch[1].Token() {
	case "+":
		return l + r, nil
	case "-":
		return l - r, nil
	case "*":
		return l * r, nil
	default:
		if r == 0 {
			return nil, parsley.NewErrorf(ch[1].Pos(), "division by zero")
		}
		return l / r, nil
	}
})

// arithParser: expr -> expr +/- term | term; term -> term *// factor | factor; factor -> ( expr ) | integer
func arithParser() parsley.Parser {
	var expr, term, factor parser.Func
	tok := func(c rune) parsley.Parser { return text.Trim(terminal.Rune(c)) }
	num := text.Trim(terminal.Integer("int"))
	factor = combinator.Memoize(combinator.Any(
		combinator.SeqOf(tok('('), &expr, tok(')')).Bind(interpreter.Select(1)),
		num,
	))
	term = combinator.Memoize(combinator.Any(
		combinator.SeqOf(&term, combinator.Any(tok('*'), tok('/')), &factor).Bind(binop),
		&factor,
	))
	expr = combinator.Memoize(combinator.Any(
		combinator.SeqOf(&expr, combinator.Any(tok('+'), tok('-')), &term).Bind(binop),
		&term,
	))
	return combinator.Sentence(&expr)
}

var arithP = arithParser() // built once, reused for every input

// arithParserB: the same grammar written with the other combinators a user would reach for: Choice instead of Any
// (literal first, then the parenthesised expression), the operators as a Choice, LeftTrim / RightTrim composed by hand
func arithParserB() parsley.Parser {
	var expr, term, factor parser.Func
	tok := func(c rune) parsley.Parser {
		return text.RightTrim(text.LeftTrim(terminal.Rune(c), text.WsSpacesNl), text.WsSpacesNl)
	}
	num := text.LeftTrim(text.RightTrim(terminal.Integer("int"), text.WsSpacesNl), text.WsSpacesNl)
	factor = combinator.Memoize(combinator.Choice(
		num,
		combinator.SeqOf(tok('('), &expr, tok(')')).Bind(interpreter.Select(1)),
	))
	term = combinator.Memoize(combinator.Any(
		&factor,
		combinator.SeqOf(&term, combinator.Choice(tok('*'), tok('/')), &factor).Bind(binop),
	))
	expr = combinator.Memoize(combinator.Any(
		&term,
		combinator.SeqOf(&expr, combinator.Choice(tok('+'), tok('-')), &term).Bind(binop),
	))
	return combinator.Sentence(&expr)
}

var arithPB = arithParserB()
var arithVariant = 0 // observations alternate between the two grammars

// leftNested: every binary node has its nested binary node (of the same level) on the LEFT
func treeShape(n parsley.Node) string {
	nt, ok := n.(parsley.NonTerminalNode)
	if !ok {
		return "left"
	}
	ch := nt.Children()
	if len(ch) == 3 {
		if op := ch[1].Token(); op == "+" || op == "-" || op == "*" || op == "/" {
			// the right operand of a left-associative chain is never a same-precedence binary node (without parentheses it cannot be)
			for _, c := range []parsley.Node{ch[0], ch[2]} {
				if treeShape(c) != "left" {
					return "other"
				}
			}
			return "left"
		}
	}
	for _, c := range ch {
		if treeShape(c) != "left" {
			return "other"
		}
	}
	return "left"
}

func arithObserve(content []byte, base int) J {
	e := J{"text": intsOf(content), "ok": false, "val": 0, "err": "", "parseerr": false}
	if m := safely(func() {
		f, fs := fileAt(content, base)
		ctx := parsley.NewContext(fs, readerFor(f))
		p := arithP
		if arithVariant++; arithVariant%2 == 0 {
			p = arithPB
		}
		v, err := parsley.Evaluate(ctx, p)
		if err != nil {
			e["err"] = err.Error()
			e["parseerr"] = strings.HasPrefix(err.Error(), "failed to parse the input: ")
			return
		}
		iv, isInt := v.(int64)
		if !isInt {
			e["err"] = fmt.Sprintf("value of type %T", v)
			return
		}
		e["ok"] = true
		if iv > 1<<30 || iv < -(1<<30) {
			e["big"] = true
			iv = 0
		}
		e["val"] = iv
	}); m != "" {
		e["panic"] = m
	}
	return e
}

// generator-side evaluator, only to keep intermediate values inside TLC's 32-bit integers (never used as an oracle)
type aexpr struct {
	op   byte
	l, r *aexpr
	v    int64
	par  bool
}

func (x *aexpr) eval() (int64, bool) {
	if x.op == 0 {
		return x.v, true
	}
	l, ok := x.l.eval()
	if !ok {
		return 0, false
	}
	r, ok := x.r.eval()
	if !ok {
		return 0, false
	}
	var v int64
	switch x.op {
	case '+':
		v = l + r
	case '-':
		v = l - r
	case '*':
		v = l * r
	default:
		if r == 0 {
			return 0, true // division by zero is a legitimate case
		}
		v = l / r
	}
	if v > 1000000 || v < -1000000 {
		return 0, false
	}
	return v, true
}

func prec(op byte) int {
	if op == '+' || op == '-' {
		return 1
	}
	if op == '*' || op == '/' {
		return 2
	}
	return 3
}

func (x *aexpr) tokens(parentPrec int, right bool) []string {
	if x.op == 0 {
		return []string{fmt.Sprint(x.v)}
	}
	p := prec(x.op)
	need := x.par || p < parentPrec || (p == parentPrec && right)
	var t []string
	if need {
		t = append(t, "(")
	}
	t = append(t, x.l.tokens(p, false)...)
	t = append(t, string(x.op))
	t = append(t, x.r.tokens(p, true)...)
	if need {
		t = append(t, ")")
	}
	return t
}

func genExpr(r *rand.Rand, depth, maxDepth int, shape int) *aexpr {
	if depth >= maxDepth || (depth > 1 && r.Intn(6) == 0) {
		v := int64(r.Intn(12))
		if r.Intn(5) == 0 {
			v = -v
		}
		if r.Intn(9) == 0 {
			v = 0
		}
		return &aexpr{v: v}
	}
	x := &aexpr{op: "+-*/"[r.Intn(4)], par: r.Intn(7) == 0}
	switch shape {
	case 0: // left-heavy
		x.l, x.r = genExpr(r, depth+1, maxDepth, shape), genExpr(r, maxDepth, maxDepth, shape)
	case 1: // right-heavy (parenthesised)
		x.l, x.r = genExpr(r, maxDepth, maxDepth, shape), genExpr(r, depth+1, maxDepth, shape)
	default:
		x.l, x.r = genExpr(r, depth+1+r.Intn(3), maxDepth, shape), genExpr(r, depth+1+r.Intn(3), maxDepth, shape)
	}
	return x
}

func renderTokens(r *rand.Rand, toks []string, dense bool) []byte {
	ws := []string{"", "", " ", "  ", "\n", " \t", "\n  ", "\f", "\n\n", "\n \n"}
	var sb strings.Builder
	for i, t := range toks {
		g := ws[r.Intn(len(ws))]
		if dense {
			g = ""
		}
		// a sign directly after another token would be read as a binary operator followed by a number: keep literals apart
		if i > 0 && g == "" {
			prev := toks[i-1]
			if (t[0] == '-' || t[0] == '+' || (t[0] >= '0' && t[0] <= '9')) && (prev[len(prev)-1] >= '0' && prev[len(prev)-1] <= '9') {
				g = " "
			}
		}
		sb.WriteString(g)
		sb.WriteString(t)
	}
	sb.WriteString(ws[r.Intn(len(ws))])
	return []byte(sb.String())
}

func arithMain(mode string, a args) {
	switch mode {
	case "replay":
		type tcase struct {
			Text []int  `json:"text"`
			K    string `json:"k"`
			V    int64  `json:"v"`
			Msg  string `json:"msg"`
		}
		cases, nontriv := 0, 0
		mism := []J{}
		var samples []interface{}
		readLines(a.str("in", ""), func(line []byte) {
			var c tcase
			if err := json.Unmarshal(line, &c); err != nil {
				die("bad case: %v", err)
			}
			cases++
			arithVariant = cases % 2 // the grammar alternates by case; the placement of the file is irrelevant to the value and to line:column
			o := arithObserve(bytesOf(c.Text), 1+(cases%3)*(cases%7))
			bad := o["panic"] != nil
			switch c.K {
			case "v":
				nontriv++
				bad = bad || o["ok"] != true || o["val"] != c.V
			case "dz":
				nontriv++
				bad = bad || o["ok"] != false || o["err"] != c.Msg
			case "ill":
				bad = bad || o["ok"] != false || o["parseerr"] != true
			}
			if bad && len(mism) < 20 {
				mism = append(mism, J{"case": json.RawMessage(append([]byte{}, line...)), "what": fmt.Sprintf("Evaluate(%q)", bytesOf(c.Text)), "got": o, "want": J{"k": c.K, "v": c.V, "msg": c.Msg}})
			}
			if len(samples) < 3 && c.K != "ill" && cases%97 == 5 {
				samples = append(samples, J{"text": string(bytesOf(c.Text)), "expected": c.K, "v": c.V, "msg": c.Msg})
			}
		})
		writeJSON(a.str("out", ""), J{"cases": cases, "nontrivial": nontriv, "mismatches": mism, "samples": samples})
	case "gen", "rerun":
		o := newOut(a.str("out", ""))
		if mode == "rerun" {
			readLines(a.str("in", ""), func(line []byte) {
				var c struct {
					Text []int `json:"text"`
				}
				json.Unmarshal(line, &c)
				o.put(arithObserve(bytesOf(c.Text), 1))
				o.put(arithObserve(bytesOf(c.Text), 1))
			})
			o.close()
			return
		}
		r := rand.New(rand.NewSource(int64(a.num("seed", 1))))
		n := a.num("n", 100)
		made := 0
		for made < n {
			maxDepth := 2 + r.Intn(a.num("maxdepth", 9))
			x := genExpr(r, 0, maxDepth, r.Intn(3))
			if r.Intn(6) == 0 {
				// a long flat left-associative chain of one precedence level (hundreds of bytes, one nesting level)
				k := 40 + r.Intn(140)
				ops := "+-"
				if r.Intn(3) == 0 {
					ops = "*/"
				}
				x = &aexpr{v: int64(1 + r.Intn(3))}
				for i := 0; i < k; i++ {
					op := ops[r.Intn(2)]
					v := int64(1 + r.Intn(2))
					if ops == "*/" {
						// keep the running value small: multiply by 2 only after a division
						if op == '*' && i%2 == 0 {
							op = '/'
						}
					}
					if r.Intn(40) == 0 {
						v = 0
					}
					x = &aexpr{op: op, l: x, r: &aexpr{v: v}}
				}
				if r.Intn(3) == 0 {
					x = &aexpr{op: '*', l: &aexpr{v: 2}, r: x}
					x.r.par = true
				}
			}
			if _, ok := x.eval(); !ok {
				continue
			}
			toks := x.tokens(0, false)
			if len(toks) > 420 {
				continue
			}
			switch r.Intn(4) {
			case 0: // ill-formed mutation at token level
				k := r.Intn(len(toks))
				switch r.Intn(5) {
				case 0:
					toks = append(toks[:k:k], toks[k+1:]...)
				case 1:
					toks = append(toks[:k+1:k+1], toks[k:]...)
				case 2:
					if k+1 < len(toks) {
						toks[k], toks[k+1] = toks[k+1], toks[k]
					}
				case 3:
					toks = append(toks, []string{"+", "*", ")", "("}[r.Intn(4)])
				default:
					toks = append([]string{"(", ")", "*"}[r.Intn(3):][:1], toks...)
				}
				if len(toks) == 0 {
					continue
				}
			}
			content := renderTokens(r, toks, r.Intn(5) == 0)
			if r.Intn(8) == 0 && len(content) > 0 {
				// a byte that looks like whitespace but is not the grammar's (VT, a CR that is not part of CR LF): ill-formed
				k := r.Intn(len(content) + 1)
				b := []byte{11, 13}[r.Intn(2)]
				if b == 13 && k < len(content) && content[k] == 10 {
					b = 11
				}
				content = append(append(append([]byte{}, content[:k]...), b), content[k:]...)
			}
			o.put(arithObserve(content, 1+r.Intn(20)))
			made++
		}
		o.close()
		fmt.Printf("{\"cases\":%d}\n", made)
	default:
		die("arith: unknown mode %q", mode)
	}
}
