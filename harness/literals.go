package main

// C08: the built-in literal parsers (text/terminal) against spec/Literals.tla

import (
	"encoding/json"
	"fmt"
	"math/rand"
	"reflect"
	"regexp"
	"strconv"
	"time"

	"github.com/opsidian/parsley/data"
	"github.com/opsidian/parsley/parsley"
	"github.com/opsidian/parsley/text"
	"github.com/opsidian/parsley/text/terminal"
)

func init() { components["literals"] = literalsMain }

const litRegexp = `[a-z]+([0-9]*)`

var litParsers = map[string]parsley.Parser{
	"integer":  terminal.Integer("i"),
	"float":    terminal.Float("f"),
	"string":   terminal.String("s", false),
	"stringbq": terminal.String("s", true),
	"char":     terminal.Char("c"),
	"bool":     terminal.Bool("b", "a", "b"),
	"nil":      terminal.Nil("n", "ab"),
	"word":     terminal.Word("w", "ab", 7),
	"op":       terminal.Op("aa"),
	"rune":     terminal.Rune('é'),
	"duration": terminal.TimeDuration("d"),
	"regexp":   terminal.Regexp("r", "ID", "identifier", litRegexp, 1),
	"regexp2":  terminal.Regexp("r", "KW", "keyword", litRegexp2, 0),
	"regexp3":  terminal.Regexp("r", "NUM", "number", litRegexp3, 1),
}

const litRegexp2 = `ab|ba+|c`

// an optional capturing group that does not take part in every match (its value is then the empty string)
const litRegexp3 = `(-)?[0-9]+`

var litFiles = map[string]*text.File{}

// the documented syntax of the numeric literals
var litSyntax = map[string]*regexp.Regexp{
	"integer":  regexp.MustCompile(`^(?:[-+]?(?:[1-9][0-9]*|0[xX][0-9a-fA-F]+|0[0-7]*))`),
	"float":    regexp.MustCompile(`^(?:[-+]?[0-9]*\.[0-9]+(?:[eE][-+]?[0-9]+)?)`),
	"duration": regexp.MustCompile(`^(?:[-+]?(?:[0-9]+(?:\.[0-9]+)?(?:ns|us|µs|μs|ms|s|m|h))+)`),
}

// litObserve runs one parser at one offset; cursors are 0-based (the file is alone in its set: pos = cursor + 1)
func litObserve(p string, d []byte, off int) J {
	o := J{"p": p, "d": intsOf(d), "off": off, "k": "err", "e": 0, "nf": false, "val": []int{}, "start": 0, "valueOK": true, "inrange": true, "rx": -1}
	// delegated oracles, computed from the bytes only (independently of parsley)
	if (p == "regexp" || p == "regexp2" || p == "regexp3") && off <= len(d) {
		expr := litRegexp
		if p == "regexp2" {
			expr = litRegexp2
		} else if p == "regexp3" {
			expr = litRegexp3
		}
		if m := regexp.MustCompile("^(?:" + expr + ")").FindIndex(d[off:]); m != nil && off < len(d) {
			o["rx"] = m[1]
		}
	}
	// the range decision of Go's conversion on the longest literal of the documented syntax at this offset, computed from
	// the bytes alone (Go's regexp + strconv / time; nothing of parsley is involved)
	if syn, ok := litSyntax[p]; ok && off <= len(d) {
		if m := syn.Find(d[off:]); m != nil {
			var cerr error
			switch p {
			case "integer":
				_, cerr = strconv.ParseInt(string(m), 0, 64)
			case "float":
				_, cerr = strconv.ParseFloat(string(m), 64)
			case "duration":
				_, cerr = time.ParseDuration(string(m))
			}
			o["inrange"] = cerr == nil
		}
	}
	if m := safely(func() {
		// one text.File per content: a literal parser applied again to a file that was read before (at this or at
		// another offset) must see the same bytes
		f := litFiles[string(d)]
		if f == nil {
			if len(litFiles) > 4000 {
				litFiles = map[string]*text.File{}
			}
			f = mkFile("f", d)
			litFiles[string(d)] = f
		}
		if f.Len() != len(d) {
			panic("harness: content must not contain CRLF")
		}
		ctx := parsley.NewContext(parsley.NewFileSet(f), text.NewReader(f))
		node, _, err := litParsers[p].Parse(ctx, data.EmptyIntMap, f.Pos(off))
		if (node == nil) == (err == nil) {
			panic(fmt.Sprintf("neither or both of node and error: %v %v", node, err))
		}
		if err != nil {
			o["e"], o["nf"] = int(err.Pos())-1, parsley.IsNotFoundError(err)
			return
		}
		o["k"], o["start"], o["e"] = "node", int(node.Pos())-1, int(node.ReaderPos())-1
		lit := ""
		s, e := int(node.Pos())-1, int(node.ReaderPos())-1
		if s >= 0 && e <= len(d) && s <= e {
			lit = string(d[s:e])
		}
		val := node.(parsley.LiteralNode).Value()
		switch p {
		case "integer":
			want, cerr := strconv.ParseInt(lit, 0, 64)
			o["valueOK"] = cerr == nil && val == want
		case "float":
			want, cerr := strconv.ParseFloat(lit, 64)
			o["valueOK"] = cerr == nil && val == want
		case "duration":
			want, cerr := time.ParseDuration(lit)
			o["valueOK"] = cerr == nil && val == want
		case "string", "stringbq":
			o["val"] = intsOf([]byte(val.(string)))
		case "char":
			o["val"] = intsOf([]byte(string(val.(rune))))
		case "bool":
			if val.(bool) {
				o["val"] = []int{1}
			} else {
				o["val"] = []int{0}
			}
		case "regexp":
			m := regexp.MustCompile("^(?:" + litRegexp + ")").FindSubmatch(d[off:])
			o["valueOK"] = m != nil && val == string(m[1])
		case "regexp2":
			m := regexp.MustCompile("^(?:" + litRegexp2 + ")").Find(d[off:])
			o["valueOK"] = m != nil && val == string(m)
		case "regexp3":
			m := regexp.MustCompile("^(?:" + litRegexp3 + ")").FindSubmatch(d[off:])
			o["valueOK"] = m != nil && val == string(m[1])
		case "rune":
			o["valueOK"] = val == 'é'
		case "word":
			o["valueOK"] = val == 7
		case "op":
			o["valueOK"] = val == "aa"
		case "nil":
			o["valueOK"] = val == nil
		}
	}); m != "" {
		o["panic"] = m
	}
	// whether strconv / time would accept the literal is part of the oracle: recompute it from the syntax the
	// specification matches is TLC's job; here the harness only reports what Go's conversion says about the longest
	// candidate it can see (digits run), used by the specification as `inrange`
	return o
}

func literalsMain(mode string, a args) {
	switch mode {
	case "replay":
		type tcase struct {
			P      string `json:"p"`
			D      []int  `json:"d"`
			Off    int    `json:"off"`
			Strict bool   `json:"strict"`
			K      string `json:"k"`
			E      int    `json:"e"`
			Nf     bool   `json:"nf"`
			Val    []int  `json:"val"`
		}
		cases, nontriv := 0, 0
		mism := []J{}
		var samples []interface{}
		readLines(a.str("in", ""), func(line []byte) {
			var c tcase
			if err := json.Unmarshal(line, &c); err != nil {
				die("bad case: %v", err)
			}
			cases++
			if c.K == "node" {
				nontriv++
			}
			var o J
			bad := false
			for rep := 0; rep < 2 && !bad; rep++ { // the second application reads the same text.File again
				o = litObserve(c.P, bytesOf(c.D), c.Off)
				bad = o["panic"] != nil || o["valueOK"] != true
				if c.Strict {
					bad = bad || o["k"] != c.K || o["e"] != c.E
					if c.K == "err" {
						bad = bad || o["nf"] != c.Nf
					} else {
						bad = bad || o["start"] != c.Off
						if c.P == "string" || c.P == "stringbq" || c.P == "char" || c.P == "bool" {
							bad = bad || !reflect.DeepEqual(norm(o["val"]), norm(c.Val))
						}
					}
				}
			}
			if bad && len(mism) < 20 {
				mism = append(mism, J{"case": json.RawMessage(append([]byte{}, line...)), "what": fmt.Sprintf("%s on %q at offset %d", c.P, bytesOf(c.D), c.Off), "got": o, "want": J{"k": c.K, "e": c.E, "nf": c.Nf, "val": c.Val}})
			}
			if len(samples) < 3 && c.K == "node" && cases%211 == 3 {
				samples = append(samples, J{"parser": c.P, "input": string(bytesOf(c.D)), "offset": c.Off, "expected_end": c.E})
			}
		})
		writeJSON(a.str("out", ""), J{"cases": cases, "nontrivial": nontriv, "mismatches": mism, "samples": samples})
	case "gen", "rerun":
		o := newOut(a.str("out", ""))
		if mode == "rerun" {
			readLines(a.str("in", ""), func(line []byte) {
				var c struct {
					P   string `json:"p"`
					D   []int  `json:"d"`
					Off int    `json:"off"`
				}
				json.Unmarshal(line, &c)
				o.put(litObserve(c.P, bytesOf(c.D), c.Off))
				o.put(litObserve(c.P, bytesOf(c.D), c.Off))
			})
			o.close()
			return
		}
		r := rand.New(rand.NewSource(int64(a.num("seed", 1))))
		n := a.num("n", 500)
		names := []string{"integer", "float", "string", "stringbq", "char", "bool", "nil", "word", "op", "rune", "duration", "regexp", "regexp2", "regexp3"}
		near := map[string][]string{
			"integer":  {"9223372036854775807", "9223372036854775808", "-9223372036854775808", "-9223372036854775809", "0x7fffffffffffffff", "0xffffffffffffffffff", "0777", "08", "0x", "12.", "+", "-0", "123456789012345678901234567890"},
			"float":    {"1.5e+", "2.25E-x", "1.5e", "1.5", "1.2e3456", "-1.2e-3456", ".5e", "1.e5", "..5", "1.2e+", "123456789.123456789e300", "0.0", "+.0e0"},
			"string":   {`"abc"`, `"a\nb"`, `"\u00e9\U0001F355"`, `"\x41\101"`, `"\xe9"`, `"\351\200"`, `"\x80\xff"`, `"\q"`, `"\/"`, `"unterminated`, "\"raw\xff\xfe\"", "\"\xc3\"", `"\ud800"`, `"\777"`, "\"a\nb\"", "\"\\t\nq\"", `""`, `"`},
			"stringbq": {"`raw\nline`", "``", "`open", `"x"`, "`a\\n`"},
			"char":     {`'a'`, `'\n'`, `'\''`, `'\x41'`, `'\xe9'`, `'\u00e9'`, `'\U0001F355'`, `'\UFFFFFFFF'`, `'\ud800'`, `'\q'`, `'\0'`, `''`, `'ab'`, `'`, "'\xff'", "'\xc3\xa9'", "'\n'", `'\`},
			"bool":     {"a", "b", "ab", "a_", "a b", "ba"},
			"nil":      {"ab", "abc", "ab ", "a"},
			"word":     {"ab", "ab1", "ab-", "a"},
			"op":       {"aa", "aaa", "a"},
			"rune":     {"é", "\xc3", "e", "éé", "\xe9", "\xe9\xa9"},
			"duration": {"1h30m", "1.5s", "5ms", "5µs", "5μs", "1h30", "10", "-2h", "99999999999999h", "1.5", "1ms2", "3m.5s", "+1ns"},
			"regexp":   {"abc12", "abc", "12", "a1b", "é1"},
			"regexp2":  {"ab", "baaa", "c", "xxba", "xab", "a", "xc", "bba"},
			"regexp3":  {"42", "-42", "-", "4-2", "--1", "0"},
		}
		junk := []byte("01789afx.eE+-\"'\\`nuU _\n\t\xc3\xa9\xffhms")
		// every near-literal as it is, at offset 0 and behind a blank with a foreign byte after it
		for _, p := range names {
			for _, lit := range near[p] {
				o.put(litObserve(p, []byte(lit), 0))
				o.put(litObserve(p, []byte(" "+lit+"x"), 1))
			}
		}
		for i := 0; i < n; i++ {
			p := names[i%len(names)]
			var d []byte
			if r.Intn(3) > 0 {
				d = []byte(near[p][r.Intn(len(near[p]))])
				// local damage: truncate, insert, replace
				switch r.Intn(5) {
				case 0:
					if len(d) > 0 {
						d = d[:r.Intn(len(d))]
					}
				case 1:
					k := r.Intn(len(d) + 1)
					d = append(append(append([]byte{}, d[:k]...), junk[r.Intn(len(junk))]), d[k:]...)
				case 2:
					if len(d) > 0 {
						d = append([]byte{}, d...)
						d[r.Intn(len(d))] = junk[r.Intn(len(junk))]
					}
				}
			} else {
				d = make([]byte, r.Intn(24))
				for j := range d {
					d[j] = junk[r.Intn(len(junk))]
				}
			}
			// no CR: CRLF normalisation belongs to C09/C11
			pre := make([]byte, r.Intn(4))
			for j := range pre {
				pre[j] = junk[r.Intn(len(junk))]
			}
			suf := make([]byte, r.Intn(4))
			for j := range suf {
				suf[j] = junk[r.Intn(len(junk))]
			}
			all := append(append(append([]byte{}, pre...), d...), suf...)
			o.put(litObserve(p, all, len(pre)))
			if r.Intn(4) == 0 {
				o.put(litObserve(p, all, r.Intn(len(all)+1)))
			}
			if r.Intn(2) == 0 {
				o.put(litObserve(p, all, len(pre))) // again, on the text.File that has been read before
			}
		}
		o.close()
		fmt.Printf("{\"cases\":%d}\n", o.n)
	default:
		die("literals: unknown mode %q", mode)
	}
}
