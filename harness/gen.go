package main

// Random grammars for the code->model direction. The generator only PROPOSES grammars; that a
// grammar is admissible (stratified, repetition operands consume) is re-asserted by TLC
// (Derivation!Admissible) before anything is judged on it.

import (
	"fmt"
	"math/rand"
)

type genOpts struct {
	maxNT     int
	named     int  // 0: no names, 1: every Any/Choice named, 2: random
	lrfree    bool // only grammars without left recursion (C03)
	monotone  bool // only Any/SeqOf/Optional/Empty
	share     bool // bias toward one cached list consumed by several appending parents
	alphabet  []int
	trims     bool
	productiv bool
}

type gbuilder struct {
	n []gnode
	r *rand.Rand
}

func (b *gbuilder) add(n gnode) int {
	if n.Kids == nil {
		n.Kids = []int{}
	}
	b.n = append(b.n, n)
	return len(b.n) // 1-based id
}

func genGrammar(r *rand.Rand, o genOpts) (G []gnode, root int, nts []int) {
	b := &gbuilder{r: r}
	nnt := 1 + r.Intn(o.maxNT)
	for i := 0; i < nnt; i++ {
		nts = append(nts, b.add(gnode{K: "memo"}))
	}
	term := func() int {
		ch := o.alphabet[r.Intn(len(o.alphabet))]
		return b.add(gnode{K: "term", Ch: ch, Name: termName(ch)})
	}
	var atom func(depth int) int
	leafish := func() int {
		switch x := r.Intn(8); {
		case x < 3:
			return term()
		case x < 4:
			return b.add(gnode{K: "empty"})
		case x < 6:
			return nts[r.Intn(nnt)]
		case x < 7:
			return b.add(gnode{K: "opt", Kids: []int{nts[r.Intn(nnt)]}})
		default:
			return b.add(gnode{K: "opt", Kids: []int{term()}})
		}
	}
	atom = func(depth int) int {
		x := r.Intn(18)
		switch {
		case x < 5:
			return term()
		case x < 6:
			return b.add(gnode{K: "empty"})
		case x < 9:
			return nts[r.Intn(nnt)]
		case x < 10:
			return b.add(gnode{K: "opt", Kids: []int{atom(depth + 1)}})
		}
		if depth > 1 {
			return term()
		}
		if o.share && x >= 15 {
			// a group: the alternatives of one position collected by an appending parent
			k := 2 + r.Intn(2)
			var ks []int
			for i := 0; i < k; i++ {
				ks = append(ks, leafish())
			}
			return b.add(gnode{K: "any", Kids: ks})
		}
		if o.monotone {
			return b.add(gnode{K: "seq", Mode: "of", Kids: []int{atom(depth + 1), atom(depth + 1)}})
		}
		switch x {
		case 10:
			return b.add(gnode{K: "choice", Kids: []int{atom(depth + 1), atom(depth + 1)}})
		case 11:
			return b.add(gnode{K: "seq", Mode: []string{"many", "many1"}[r.Intn(2)], Kids: []int{atom(depth + 1)}})
		case 12:
			sep := term()
			if r.Intn(3) == 0 { // a separator of more than one terminal
				sep = b.add(gnode{K: "seq", Mode: "of", Kids: []int{sep, term()}})
			}
			return b.add(gnode{K: "seq", Mode: []string{"sepby", "sepby1"}[r.Intn(2)], Kids: []int{atom(depth + 1), sep}})
		case 13:
			return b.add(gnode{K: "seq", Mode: "try", Kids: []int{atom(depth + 1), atom(depth + 1), atom(depth + 1)}})
		case 14:
			return b.add(gnode{K: "seq", Mode: "foa", Kids: []int{atom(depth + 1), atom(depth + 1), atom(depth + 1)}})
		default:
			return b.add(gnode{K: "seq", Mode: "of", Kids: []int{atom(depth + 1), atom(depth + 1)}})
		}
	}
	for _, nt := range nts {
		nalt := 1 + r.Intn(3)
		if o.share && r.Intn(2) == 0 {
			nalt = 3 + r.Intn(3)
		}
		var alts []int
		for j := 0; j < nalt; j++ {
			l := 1 + r.Intn(3)
			var ks []int
			if o.lrfree && r.Intn(3) == 0 {
				// recursion behind a nullable prefix and a consuming element: the prefix matches nothing, the
				// element after it consumes, the counters must not survive that
				switch r.Intn(3) {
				case 0:
					ks = append(ks, b.add(gnode{K: "opt", Kids: []int{term()}}))
				case 1:
					ks = append(ks, b.add(gnode{K: "empty"}))
				default:
					ks = append(ks, b.add(gnode{K: "seq", Mode: "many", Kids: []int{term()}}))
				}
				ks = append(ks, term())
				if r.Intn(2) == 0 {
					ks = append(ks, nts[r.Intn(nnt)])
				} else {
					ks = append(ks, b.add(gnode{K: "opt", Kids: []int{nts[r.Intn(nnt)]}}))
				}
				if r.Intn(3) == 0 {
					ks = append(ks, term())
				}
				alts = append(alts, b.add(gnode{K: "seq", Mode: "of", Kids: ks}))
				continue
			}
			for q := 0; q < l; q++ {
				ks = append(ks, atom(0))
			}
			if l == 1 && r.Intn(2) == 0 {
				alts = append(alts, ks[0])
			} else {
				alts = append(alts, b.add(gnode{K: "seq", Mode: "of", Kids: ks}))
			}
		}
		body := b.add(gnode{K: "any", Kids: alts})
		b.n[nt-1].Kids = []int{body}
	}
	// names
	if o.named > 0 {
		ref := map[int]int{}
		cnt := len(b.n)
		for i := 0; i < cnt; i++ {
			if k := b.n[i].K; (k == "any" || k == "choice") && (o.named == 1 || r.Intn(2) == 0) {
				id := b.add(gnode{K: "named", Kids: []int{i + 1}, Name: fmt.Sprintf("was expecting N%d", i+1)})
				ref[i+1] = id
			}
		}
		for i := 0; i < cnt; i++ {
			for j, k := range b.n[i].Kids {
				if nk, ok := ref[k]; ok {
					b.n[i].Kids[j] = nk
				}
			}
		}
		if o.named == 2 {
			for i := 0; i < cnt; i++ {
				if b.n[i].K == "seq" && r.Intn(4) == 0 {
					b.n[i].Name = fmt.Sprintf("was expecting S%d", i+1)
				}
			}
		}
	}
	end := b.add(gnode{K: "end"})
	root = b.add(gnode{K: "seq", Mode: "of", Kids: []int{nts[0], end}})
	return b.n, root, nts
}

// ---- static analyses (generator side only; TLC re-checks Admissible) ------------------------

func elemOf(n gnode, d int) int {
	switch n.Mode {
	case "of", "try", "foa":
		if d < len(n.Kids) {
			return n.Kids[d]
		}
		return 0
	case "many", "many1":
		return n.Kids[0]
	default:
		return n.Kids[d%2]
	}
}

func nullableOf(G []gnode) []bool {
	nu := make([]bool, len(G)+1)
	for ch := true; ch; {
		ch = false
		for i, n := range G {
			v := false
			switch n.K {
			case "empty", "opt", "end":
				v = true
			case "any", "choice":
				for _, k := range n.Kids {
					v = v || nu[k]
				}
			case "memo", "named", "pass", "ltrim", "rtrim", "single", "suppress":
				v = nu[n.Kids[0]]
			case "seq":
				switch n.Mode {
				case "of":
					v = true
					for _, k := range n.Kids {
						v = v && nu[k]
					}
				case "try", "foa", "many1", "sepby1":
					v = nu[n.Kids[0]]
				default:
					v = true
				}
			}
			if v && !nu[i+1] {
				nu[i+1] = true
				ch = true
			}
		}
	}
	return nu
}

type gedge struct {
	to  int
	neg bool
}

func leftEdgesOf(G []gnode, nu []bool) [][]gedge {
	es := make([][]gedge, len(G)+1)
	for i0, n := range G {
		i := i0 + 1
		switch n.K {
		case "opt", "memo", "named", "pass", "ltrim", "rtrim", "single", "suppress":
			es[i] = append(es[i], gedge{n.Kids[0], false})
		case "any":
			for _, k := range n.Kids {
				es[i] = append(es[i], gedge{k, false})
			}
		case "choice":
			for j, k := range n.Kids {
				es[i] = append(es[i], gedge{k, j < len(n.Kids)-1})
			}
		case "seq":
			neg := n.Mode != "of"
			switch n.Mode {
			case "of", "try", "foa":
				for _, k := range n.Kids {
					es[i] = append(es[i], gedge{k, neg})
					if !nu[k] {
						break
					}
				}
			case "many", "many1":
				es[i] = append(es[i], gedge{n.Kids[0], true})
			default:
				es[i] = append(es[i], gedge{n.Kids[0], true})
				if nu[n.Kids[0]] {
					es[i] = append(es[i], gedge{n.Kids[1], true})
				}
			}
		}
	}
	return es
}

func reachOf(es [][]gedge) [][]bool {
	n := len(es)
	R := make([][]bool, n)
	for i := range R {
		R[i] = make([]bool, n)
		for _, e := range es[i] {
			R[i][e.to] = true
		}
	}
	for k := 1; k < n; k++ {
		for i := 1; i < n; i++ {
			if R[i][k] {
				for j := 1; j < n; j++ {
					if R[k][j] {
						R[i][j] = true
					}
				}
			}
		}
	}
	return R
}

func admissibleG(G []gnode) (adm bool, lrfree bool) {
	nu := nullableOf(G)
	for _, n := range G {
		if n.K == "seq" && (n.Mode == "many" || n.Mode == "many1") && nu[n.Kids[0]] {
			return false, false
		}
		if n.K == "seq" && (n.Mode == "sepby" || n.Mode == "sepby1") && (nu[n.Kids[0]] || nu[n.Kids[1]]) {
			return false, false
		}
	}
	es := leftEdgesOf(G, nu)
	R := reachOf(es)
	lrfree = true
	for i := 1; i < len(es); i++ {
		if R[i][i] {
			lrfree = false
		}
		for _, e := range es[i] {
			if e.neg && (e.to == i || R[e.to][i]) {
				return false, false
			}
		}
	}
	return true, lrfree
}

func productiveG(G []gnode) bool {
	pr := make([]bool, len(G)+1)
	for ch := true; ch; {
		ch = false
		for i, n := range G {
			v := false
			switch n.K {
			case "term", "end", "empty", "opt":
				v = true
			case "any", "choice":
				for _, k := range n.Kids {
					v = v || pr[k]
				}
			case "memo", "named", "pass", "ltrim", "rtrim", "single", "suppress":
				v = pr[n.Kids[0]]
			case "seq":
				switch n.Mode {
				case "of":
					v = true
					for _, k := range n.Kids {
						v = v && pr[k]
					}
				case "try", "foa", "many1", "sepby1":
					v = pr[n.Kids[0]]
				default:
					v = true
				}
			}
			if v && !pr[i+1] {
				pr[i+1] = true
				ch = true
			}
		}
	}
	for i := 1; i <= len(G); i++ {
		if !pr[i] {
			return false
		}
	}
	return true
}

func randInput(r *rand.Rand, alphabet []int, maxlen int) []int {
	l := r.Intn(maxlen + 1)
	w := make([]int, l)
	for i := range w {
		w[i] = alphabet[r.Intn(len(alphabet))]
	}
	return w
}

// shareTemplate: one cached list in front of TWO appending consumers whose results are read again later.
//
//	M  -> a | aa | ... | a^k        (k alternatives at one position; Go slices of 3, 5, 6, 7 elements have spare capacity)
//	C1 -> M | x1     C2 -> M | x2   (two different Any's extend M's list with different alternatives)
//	P  -> C1 t1 | C2 t2 | C1 t3     (C1's cached result is read again after C2 has run), in two orders
func shareTemplate(r *rand.Rand) (G []gnode, root int, nts []int, inputs [][]int) {
	b := &gbuilder{r: r}
	for i := 0; i < 4; i++ {
		nts = append(nts, b.add(gnode{K: "memo"}))
	}
	tm := func(ch int) int { return b.add(gnode{K: "term", Ch: ch, Name: termName(ch)}) }
	as := func(n int) int {
		if n == 1 {
			return tm('a')
		}
		var ks []int
		for i := 0; i < n; i++ {
			ks = append(ks, tm('a'))
		}
		return b.add(gnode{K: "seq", Mode: "of", Kids: ks})
	}
	k := []int{3, 3, 5, 6, 7, 4, 2}[r.Intn(7)]
	var malts []int
	for i := 1; i <= k; i++ {
		malts = append(malts, as(i))
	}
	extra := func() int {
		switch r.Intn(5) {
		case 0:
			return as(k + 1)
		case 1:
			return b.add(gnode{K: "empty"})
		case 2:
			return b.add(gnode{K: "opt", Kids: []int{tm('b')}})
		case 3:
			return tm('b')
		default:
			return as(k + 2)
		}
	}
	consumer := func() int {
		switch r.Intn(4) {
		case 0:
			return b.add(gnode{K: "opt", Kids: []int{nts[1]}})
		default:
			return b.add(gnode{K: "any", Kids: []int{nts[1], extra()}})
		}
	}
	b.n[nts[1]-1].Kids = []int{b.add(gnode{K: "any", Kids: malts})}
	b.n[nts[2]-1].Kids = []int{consumer()}
	b.n[nts[3]-1].Kids = []int{consumer()}
	c1, c2 := nts[2], nts[3]
	if r.Intn(2) == 0 {
		c1, c2 = c2, c1
	}
	alt := func(c, t int) int { return b.add(gnode{K: "seq", Mode: "of", Kids: []int{c, tm(t)}}) }
	b.n[nts[0]-1].Kids = []int{b.add(gnode{K: "any", Kids: []int{alt(c1, 'c'), alt(c2, 'c'), alt(c1, 'b')}})}
	end := b.add(gnode{K: "end"})
	root = b.add(gnode{K: "seq", Mode: "of", Kids: []int{nts[0], end}})
	for n := 0; n <= k+2; n++ {
		for _, t := range []int{'b', 'c'} {
			w := []int{}
			for i := 0; i < n; i++ {
				w = append(w, 'a')
			}
			inputs = append(inputs, append(w, t))
		}
		if n > 0 && n <= k+1 {
			w := []int{}
			for i := 0; i < n; i++ {
				w = append(w, 'a')
			}
			inputs = append(inputs, append(w, 'b', 'b'), append(append([]int{}, w...), 'b', 'c'))
		}
	}
	return b.n, root, nts, inputs
}

func parseGen(a args) {
	r := rand.New(rand.NewSource(int64(a.num("seed", 1))))
	n := a.num("n", 200)
	maxlen := a.num("maxlen", 5)
	base := a.num("base", 1)
	budget := a.num("budget", 3000)
	o := genOpts{maxNT: a.num("maxnt", 3), named: a.num("named", 2), lrfree: a.num("lrfree", 0) == 1,
		monotone: a.num("monotone", 0) == 1, share: a.num("share", 1) == 1, alphabet: []int{97, 98},
		productiv: a.num("productive", 0) == 1}
	perG := a.num("perg", 4)
	trace := newOut(a.str("out", ""))
	written, events, skipped, tried := 0, 0, 0, 0
	kinds := map[string]int{}
	tmpl := a.str("tmpl", "")
	emitTreeSets = a.num("trees", 0) == 1
	for written < n && tried < n*200 {
		tried++
		var G []gnode
		var root int
		var nts []int
		var tinputs [][]int
		if tmpl == "share" {
			G, root, nts, tinputs = shareTemplate(r)
			perG = len(tinputs)
		} else {
			G, root, nts = genGrammar(r, o)
		}
		adm, lrf := admissibleG(G)
		if !adm || (o.lrfree && !lrf) || (o.productiv && !productiveG(G)) {
			continue
		}
		for k := 0; k < perG && written < n; k++ {
			w := randInput(r, o.alphabet, maxlen)
			if tinputs != nil {
				w = tinputs[k]
			}
			b := base
			if base == 0 {
				b = 1 + r.Intn(9)
			}
			c := &caseT{G: G, W: w, B: b, Adm: true, Root: root, C06: productiveG(G)}
			c.Asks = append(c.Asks, askT{N: root, P: b})
			for _, nt := range nts {
				for p := 0; p <= len(w); p++ {
					c.Asks = append(c.Asks, askT{N: nt, P: b + p})
				}
			}
			out := runCase(c, runOpts{budget: budget, api: true, trees: a.num("trees", 0) == 1, watch: a.num("watch", 0) == 1})
			if out.over {
				skipped++
				continue
			}
			trace.put(beginLine(c, written))
			for _, e := range out.events {
				trace.put(e)
			}
			if out.api != nil && !out.bound && out.api["skipped"] == nil {
				trace.put(out.api)
			}
			for _, m := range out.mutations {
				trace.put(J{"ev": "mutation", "n": m["n"], "pos": m["pos"], "at_return": m["at_return"], "now": m["now"]})
			}
			events += len(out.events)
			written++
			for _, g := range G {
				kinds[g.K+g.Mode]++
			}
		}
	}
	trace.close()
	fmt.Printf("{\"traces\":%d,\"events\":%d,\"skipped_budget\":%d}\n", written, events, skipped)
}
