package main

// Component "parse": the combinators of /repo driven by grammars given as data.
//   replay : cases exported by TLC from ParsleyMC (grammar, input, base, asks with the outcome the
//            machine expects and the end positions the denotational oracle expects) are run through the
//            real combinators; writes a result summary and the probe trace of every case
//   gen    : random admissible grammars (with a sharing bias), random inputs; writes probe traces

import (
	"encoding/json"
	"fmt"
	"math/rand"
	"reflect"
	"sort"

	"github.com/opsidian/parsley/combinator"
	"github.com/opsidian/parsley/data"
	"github.com/opsidian/parsley/parser"
	"github.com/opsidian/parsley/parsley"
	"github.com/opsidian/parsley/text"
)

func init() { components["parse"] = parseMain }

type askT struct {
	N     int             `json:"n"`
	P     int             `json:"p"`
	Res   [][]interface{} `json:"res"`
	Err   []interface{}   `json:"err"`
	Calls int             `json:"calls"`
	Cerr  []interface{}   `json:"cerr"`
	Ends  []int           `json:"ends"`
}

type caseT struct {
	G    []gnode `json:"G"`
	W    []int   `json:"w"`
	B    int     `json:"B"`
	Adm  bool    `json:"adm"`
	Fam  string  `json:"fam"`
	Asks []askT  `json:"asks"`
	Root int     `json:"root"`
	C06  bool    `json:"c06"`
}

// C07: everything a parser returned, with its rendering at the moment it was returned
type watched struct {
	n, pos int
	node   parsley.Node
	render string
}
type watcher struct {
	items []watched
}

func renderNode(n parsley.Node) string {
	tr := []interface{}{}
	for _, x := range altsOf(n) {
		tr = append(tr, treeOf(x))
	}
	b, _ := json.Marshal(tr)
	return string(b)
}

func (w *watcher) returned(n, pos int, node parsley.Node) {
	if node == nil {
		return
	}
	w.items = append(w.items, watched{n, pos, node, renderNode(node)})
}

// reobserve re-reads everything returned so far; a difference is a mutation after return
func (w *watcher) reobserve() []J {
	var diffs []J
	for k, it := range w.items {
		if now := renderNode(it.node); now != it.render {
			diffs = append(diffs, J{"k": k, "n": it.n, "pos": it.pos, "at_return": json.RawMessage(it.render), "now": json.RawMessage(now)})
		}
	}
	return diffs
}

type runOpts struct {
	budget  int
	trees   bool
	watch   bool
	api     bool
	quiet   bool
	nopre   bool
	topOnly bool // record the events of top-level calls only (long inputs)
}

type runOut struct {
	events    []J
	over      bool
	bound     bool
	outs      []J // one per top-level call: observed outcome
	api       J
	mutations []J
	attempts  [][2]int
	bodyRuns  map[[2]int]int
	calls     int
}

func bytesOf(w []int) []byte {
	b := make([]byte, len(w))
	for i, x := range w {
		b[i] = byte(x)
	}
	return b
}

// runCase builds the grammar from the real constructors and performs the root call and the asks on one context
func runCase(c *caseT, o runOpts) (out runOut) {
	if !o.nopre {
		// pre-flight: same grammar, same calls, quiet probes and a counting result handler; a case whose
		// work exceeds the budget (exponentially ambiguous or cyclic grammars) is skipped, never judged
		pre := runOnce(c, runOpts{budget: o.budget, quiet: true}, true)
		if pre.over {
			return pre
		}
	}
	return runOnce(c, o, false)
}

// built grammars are REUSED across the inputs of consecutive cases with the same grammar (a parser graph is
// built once and used for many parses; state that survives in the graph between parses must not matter)
type builtG struct {
	t  *tracer
	ps []parsley.Parser
}

var builtCache = map[string]*builtG{}

func getBuilt(c *caseT, preflight bool) *builtG {
	kb, _ := json.Marshal(c.G)
	key := fmt.Sprintf("%v|%s", preflight, kb)
	if b, ok := builtCache[key]; ok {
		return b
	}
	if len(builtCache) > 8 {
		builtCache = map[string]*builtG{}
	}
	t := &tracer{preflight: preflight}
	b := &builtG{t: t, ps: build(c.G, t)}
	builtCache[key] = b
	return b
}

func runOnce(c *caseT, o runOpts, preflight bool) (out runOut) {
	b := getBuilt(c, preflight)
	t, ps := b.t, b.ps
	t.budget, t.trees, t.quiet, t.topOnly = o.budget, o.trees, o.quiet, o.topOnly
	t.ev, t.stack, t.over, t.bound, t.count, t.watch = nil, nil, false, false, 0, nil
	t.attempts, t.nfails, t.bodyRuns = map[[2]int]bool{}, map[[2]int]bool{}, map[[2]int]int{}
	if o.watch {
		t.watch = &watcher{}
	}
	content := bytesOf(c.W)
	f, fs := fileAt(content, c.B)
	rd := readerFor(f)
	t.remain = func(pos int) int { return len(content) - (pos - c.B) }
	ctx := parsley.NewContext(fs, rd)
	func() {
		defer func() {
			if r := recover(); r != nil {
				switch r.(type) {
				case tooBig:
					out.over = true
				case boundExceeded:
					out.bound = true
				default:
					panic(r)
				}
			}
		}()
		for _, a := range c.Asks {
			n, cp, err := ps[a.N-1].Parse(ctx, data.EmptyIntMap, parsley.Pos(a.P))
			ends := map[int]bool{}
			for _, x := range altsOf(n) {
				ends[int(x.ReaderPos())-c.B] = true
			}
			oj := J{"n": a.N, "p": a.P, "res": shallow(n), "cp": t.cpJ(cp), "err": errJ(err),
				"calls": ctx.CallCount(), "cerr": errJ(ctx.Error()), "ends": sortedInts(ends)}
			if o.trees {
				oj["tr"] = renderNode(n)
			}
			out.outs = append(out.outs, oj)
			if t.watch != nil {
				out.mutations = append(out.mutations, t.watch.reobserve()...)
			}
		}
		if t.watch != nil {
			// ask everything again (quietly): a memoised parser asked again at the same position gives the same answer
			t.quiet = true
			first := map[[2]int]string{}
			for pass := 0; pass < 2; pass++ {
				for _, a := range c.Asks {
					n, _, _ := ps[a.N-1].Parse(ctx, data.EmptyIntMap, parsley.Pos(a.P))
					r := renderNode(n)
					k := [2]int{a.N, a.P}
					if f, ok := first[k]; !ok {
						first[k] = r
					} else if f != r {
						out.mutations = append(out.mutations, J{"k": -1, "n": a.N, "pos": a.P, "at_return": json.RawMessage(f), "now": json.RawMessage(r), "kind": "asked again"})
					}
				}
				out.mutations = append(out.mutations, t.watch.reobserve()...)
			}
		}
	}()
	out.events = t.ev
	out.calls = ctx.CallCount()
	out.bodyRuns = t.bodyRuns
	for k := range t.attempts {
		out.attempts = append(out.attempts, k)
	}
	sort.Slice(out.attempts, func(i, j int) bool {
		if out.attempts[i][0] != out.attempts[j][0] {
			return out.attempts[i][0] < out.attempts[j][0]
		}
		return out.attempts[i][1] < out.attempts[j][1]
	})
	if o.api && !out.over && !out.bound && c.Root > 0 {
		t.quiet = true
		t.ev = nil // the events are in out.events; the API runs are quiet and must not hit the event budget
		out.api = apiCall(c, ps, content)
	}
	return
}

// apiCall: parsley.Parse and parsley.Evaluate on fresh contexts (the probes stay quiet)
func apiCall(c *caseT, ps []parsley.Parser, content []byte) J {
	res := J{"ev": "api"}
	func() {
		defer func() {
			if r := recover(); r != nil {
				switch r.(type) {
				case tooBig, boundExceeded:
					res["skipped"] = true
				default:
					res["panic"] = fmt.Sprint(r)
				}
			}
		}()
		f, fs := fileAt(content, c.B)
		ctx := parsley.NewContext(fs, readerFor(f))
		node, err := parsley.Parse(ctx, ps[c.Root-1])
		res["node"] = node != nil
		res["err"] = err != nil
		res["text"] = ""
		res["span"] = []int{}
		if err != nil {
			res["text"] = err.Error()
		}
		if node != nil {
			res["span"] = []int{int(node.Pos()), int(node.ReaderPos())}
		}
		f2, fs2 := fileAt(content, c.B)
		ctx2 := parsley.NewContext(fs2, readerFor(f2))
		val, err2 := parsley.Evaluate(ctx2, ps[c.Root-1])
		res["val"] = val != nil
		res["everr"] = err2 != nil
	}()
	return res
}

var emitTreeSets bool

func beginLine(c *caseT, idx int) J {
	asks := [][]int{}
	for _, a := range c.Asks {
		asks = append(asks, []int{a.N, a.P})
	}
	return J{"ev": "begin", "case": idx, "G": c.G, "w": c.W, "B": c.B, "adm": c.Adm, "asks": asks, "root": c.Root, "c06": c.C06, "treesets": emitTreeSets}
}

func eqJSON(a, b interface{}) bool { return reflect.DeepEqual(norm(a), norm(b)) }

func parseMain(mode string, a args) {
	switch mode {
	case "replay":
		parseReplay(a)
	case "gen":
		parseGen(a)
	case "c03":
		parseC03(a)
	case "c17":
		parseC17(a)
	default:
		die("parse: unknown mode %q", mode)
	}
}

func parseReplay(a args) {
	emitTreeSets = a.num("trees", 0) == 1
	trace := newOut(a.str("trace", "/dev/null"))
	budget := a.num("budget", 4000)
	drift, viol := []J{}, []J{}
	cases, asks, skipped, nontrivial, events := 0, 0, 0, 0, 0
	var samples []interface{}
	// the case that was run just before on the SAME parser graph (violations that need state left behind by an earlier parse)
	var prevLine json.RawMessage
	prevG := ""
	readLines(a.str("in", ""), func(line []byte) {
		var c caseT
		if err := json.Unmarshal(line, &c); err != nil {
			die("bad case: %v", err)
		}
		gk, _ := json.Marshal(c.G)
		if string(gk) != prevG {
			prevLine, prevG = nil, string(gk)
		}
		myPrev := prevLine
		prevLine = json.RawMessage(append([]byte{}, line...))
		addViol := func(v J) {
			if myPrev != nil {
				v["prev"] = myPrev
			}
			viol = append(viol, v)
		}
		if c.Root == 0 && len(c.Asks) > 0 {
			c.Root = c.Asks[0].N
		}
		c.C06 = productiveG(c.G) && !hasTrims(c.G)
		cases++
		o := runCase(&c, runOpts{budget: budget, api: true, watch: a.num("watch", 0) == 1, trees: a.num("trees", 0) == 1, topOnly: a.num("toponly", 0) == 1})
		if o.over {
			skipped++
			return
		}
		trace.put(beginLine(&c, cases))
		for _, e := range o.events {
			trace.put(e)
		}
		events += len(o.events)
		if o.api != nil && o.api["skipped"] == nil {
			trace.put(o.api)
		}
		for _, m := range o.mutations {
			trace.put(J{"ev": "mutation", "n": m["n"], "pos": m["pos"], "at_return": m["at_return"], "now": m["now"]})
		}
		if o.bound {
			addViol(J{"prop": "C02", "case": json.RawMessage(append([]byte{}, line...)), "what": "re-entry bound exceeded", "event": o.events[len(o.events)-1]})
			return
		}
		rec := false
		for i, exp := range c.Asks {
			if i >= len(o.outs) {
				break
			}
			asks++
			got := o.outs[i]
			if len(exp.Ends) > 0 {
				rec = true
			}
			// property predicate (C01): the end positions equal what the grammar derives
			if c.Adm && !eqJSON(got["ends"], exp.Ends) {
				addViol(J{"prop": "C01", "case": json.RawMessage(append([]byte{}, line...)), "ask": i, "n": exp.N, "p": exp.P,
					"real_ends": got["ends"], "derivation_ends": exp.Ends})
			}
			// conformance with the operational machine (drift if different)
			if !eqJSON(got["res"], exp.Res) || !eqJSON(got["err"], exp.Err) || got["calls"] != exp.Calls || !eqJSON(got["cerr"], exp.Cerr) {
				if len(drift) < 20 {
					drift = append(drift, J{"grammar": gString(c.G), "w": string(bytesOf(c.W)), "ask": i, "n": exp.N, "p": exp.P,
						"real": got, "machine": exp})
				}
			}
		}
		for _, m := range o.mutations {
			addViol(J{"prop": "C07", "case": json.RawMessage(append([]byte{}, line...)), "mutation": m})
		}
		if rec {
			nontrivial++
		}
		if len(samples) < 3 && cases%211 == 1 {
			samples = append(samples, J{"grammar": gString(c.G), "w": string(bytesOf(c.W)), "base": c.B, "root_outcome": o.outs[0]})
		}
	})
	trace.close()
	writeJSON(a.str("out", ""), J{"cases": cases, "asks": asks, "skipped_budget": skipped, "nontrivial": nontrivial,
		"events": events, "drift": drift, "violations": viol, "samples": samples})
}

func hasTrims(G []gnode) bool {
	for _, n := range G {
		if n.K == "ltrim" || n.K == "rtrim" || n.K == "single" || n.K == "suppress" {
			return true
		}
	}
	return false
}

// ---- C03: Memoize is transparent, deterministic, at most once per position -------------------------------

func stripMemo(G []gnode) []gnode {
	r := make([]gnode, len(G))
	copy(r, G)
	for i := range r {
		if r[i].K == "memo" {
			r[i].K = "pass"
		}
	}
	return r
}

// memoWrap puts an extra Memoize around the nodes in M (1-based ids); wrappers are appended, references redirected
func memoWrap(G []gnode, M map[int]bool, root int) []gnode {
	newID := map[int]int{}
	next := len(G)
	for i := 1; i <= len(G); i++ {
		if M[i] && i != root && G[i-1].K != "memo" && G[i-1].K != "pass" {
			next++
			newID[i] = next
		}
	}
	r := make([]gnode, 0, next)
	for _, n := range G {
		kids := make([]int, len(n.Kids))
		for j, k := range n.Kids {
			kids[j] = k
			if nk, ok := newID[k]; ok {
				kids[j] = nk
			}
		}
		n.Kids = kids
		r = append(r, n)
	}
	for i := 1; i <= len(G); i++ {
		if _, ok := newID[i]; ok {
			r = append(r, gnode{K: "memo", Kids: []int{i}})
		}
	}
	return r
}

func c03Line(c *caseT, budget int) (J, bool) {
	memo := runCase(c, runOpts{budget: budget, trees: true})
	if memo.over || memo.bound {
		return nil, false
	}
	plainCase := *c
	plainCase.G = stripMemo(c.G)
	plain := runCase(&plainCase, runOpts{budget: 4 * budget, trees: true})
	if plain.over || plain.bound {
		return nil, false
	}
	memo2 := runCase(c, runOpts{budget: budget, trees: true})
	maxbody := 0
	for _, v := range memo.bodyRuns {
		if v > maxbody {
			maxbody = v
		}
	}
	pick := func(o runOut) []J {
		r := []J{}
		for _, x := range o.outs {
			r = append(r, J{"n": x["n"], "p": x["p"], "res": x["res"], "err": x["err"], "cerr": x["cerr"], "calls": x["calls"], "tr": x["tr"]})
		}
		return r
	}
	return J{"ev": "c03", "G": c.G, "w": c.W, "B": c.B, "memo": pick(memo), "plain": pick(plain), "memo2": pick(memo2), "maxbody": maxbody}, true
}

func parseC03(a args) {
	o := newOut(a.str("out", ""))
	budget := a.num("budget", 3000)
	n, skipped := 0, 0
	if in := a.str("in", ""); in != "" {
		// cases exported by ParsleyMC (left-recursion-free family, extra Memoize wrappers)
		readLines(in, func(line []byte) {
			var c caseT
			if err := json.Unmarshal(line, &c); err != nil {
				die("bad case: %v", err)
			}
			c.Root = c.Asks[0].N
			if l, ok := c03Line(&c, budget); ok {
				o.put(l)
				n++
			} else {
				skipped++
			}
		})
	} else {
		r := rand.New(rand.NewSource(int64(a.num("seed", 1))))
		want := a.num("n", 100)
		opts := genOpts{maxNT: 3, named: 2, lrfree: true, share: true, alphabet: []int{97, 98}}
		for tried := 0; n < want && tried < want*300; tried++ {
			G, root, nts := genGrammar(r, opts)
			adm, lrf := admissibleG(G)
			if !adm || !lrf {
				continue
			}
			// any subset of the sub-parsers may be memoised
			M := map[int]bool{}
			switch r.Intn(3) {
			case 0:
				for i := 1; i <= len(G); i++ {
					M[i] = true
				}
			case 1:
				for i := 1; i <= len(G); i++ {
					M[i] = r.Intn(2) == 0
				}
			}
			GW := memoWrap(G, M, root)
			for k := 0; k < 3 && n < want; k++ {
				w := randInput(r, opts.alphabet, a.num("maxlen", 7))
				bud := budget
				step := 2
				if k == 2 && a.num("long", 1) == 1 {
					// a long input (hundreds of positions): the short random input repeated
					pat := w
					if len(pat) == 0 {
						pat = []int{97}
					}
					L := 70 + r.Intn(a.num("maxlong", 260))
					w = make([]int, L)
					for i := range w {
						w[i] = pat[i%len(pat)]
					}
					if r.Intn(2) == 0 {
						w[L-1] = 98 + 97 - w[L-1] // a different last byte: forces backtracking over the whole input
					}
					bud = 40 * budget
					step = 37
				}
				// the parsed file sits anywhere in a file set (base offset 1..40)
				base := 1
				if r.Intn(2) == 0 {
					base = 2 + r.Intn(39)
				}
				c := &caseT{G: GW, W: w, B: base, Adm: true, Root: root}
				c.Asks = append(c.Asks, askT{N: root, P: base})
				for _, nt := range nts {
					for p := 0; p <= len(w); p += step {
						c.Asks = append(c.Asks, askT{N: nt, P: base + p})
					}
				}
				if l, ok := c03Line(c, bud); ok {
					o.put(l)
					n++
				} else {
					skipped++
				}
			}
		}
	}
	o.close()
	fmt.Printf("{\"cases\":%d,\"skipped_budget\":%d}\n", n, skipped)
}

// ---- C17: call counts on the unambiguous families ---------------------------------------------------------

func parseC17(a args) {
	o := newOut(a.str("out", ""))
	type c17case struct {
		Fam    string  `json:"fam"`
		N      int     `json:"n"`
		G      []gnode `json:"G"`
		W      []int   `json:"w"`
		Root   int     `json:"root"`
		Mcalls int     `json:"mcalls"`
		Exp    bool    `json:"exp"`
	}
	built := map[string]*builtG{}
	prev := map[string]int{}
	aborted := map[string]int{}
	n := 0
	readLines(a.str("in", ""), func(line []byte) {
		var c c17case
		if err := json.Unmarshal(line, &c); err != nil {
			die("bad case: %v", err)
		}
		b, ok := built[c.Fam]
		if !ok {
			// noIndex: no Memoize of the harness' own runs before the measured grammar (the process is cold)
			t := &tracer{quiet: true, budget: 1 << 30, noIndex: true}
			b = &builtG{t: t, ps: build(c.G, t)}
			built[c.Fam] = b
		}
		if aborted[c.Fam] >= 2 {
			return // a smaller size of this family was already stopped: the judge has its verdict, larger sizes would only burn time
		}
		content := bytesOf(c.W)
		// a run that needs more than 16x the calls of the previous (half) size of its family is stopped: its count
		// is then already beyond what the doubling predicate allows, and the judge will say so
		// (sizes below the judged range only get an absolute cap, far above what any of the families needs there)
		limit := 200000
		if prev[c.Fam] > 0 && c.N >= 16 {
			limit = 16*prev[c.Fam] + 64
		}
		abortedNow := false
		// the two contexts of the two runs are prepared up front: a context counts
		// the invocations of ITS parse, whatever other contexts exist or run in the meantime
		type prepared struct {
			f   *text.File
			ctx *parsley.Context
		}
		prepare := func() prepared {
			f, fs := fileAt(content, 1)
			return prepared{f, parsley.NewContext(fs, text.NewReader(f))}
		}
		run := func(p prepared) (ok bool) {
			b.t.ev, b.t.stack, b.t.count, b.t.callLimit = nil, nil, 0, limit
			b.t.attempts, b.t.nfails, b.t.bodyRuns = map[[2]int]bool{}, map[[2]int]bool{}, map[[2]int]int{}
			defer func() {
				if r := recover(); r != nil {
					if _, isBig := r.(tooBig); !isBig {
						panic(r)
					}
					ok = c.Exp
					abortedNow = true
				}
			}()
			node, _, err := b.ps[c.Root-1].Parse(p.ctx, data.EmptyIntMap, p.f.Pos(0))
			return node != nil && err == nil
		}
		e := J{"fam": c.Fam, "n": c.N, "mcalls": c.Mcalls, "exp": c.Exp}
		if m := safely(func() {
			pa, pb := prepare(), prepare()
			ok1 := run(pa)
			c1 := pa.ctx.CallCount()
			ok2 := run(pb) // (pb exists since before pa's parse)
			c2 := pb.ctx.CallCount()
			if again := pa.ctx.CallCount(); again != c1 {
				c2 = again // a counter that moves after its parse has ended is not "the call count of this run"
			}
			e["calls1"], e["calls2"], e["ok"] = c1, c2, ok1 && ok2
			prev[c.Fam] = c2
			if c.N <= 70 && !abortedNow {
				// the same grammar built AGAIN, late in the life of the process (after dozens of other Memoize calls): the same
				// input costs the same number of invocations
				for i := 0; i < 40; i++ {
					combinator.Memoize(parser.Empty())
				}
				t3 := &tracer{quiet: true, budget: 1 << 30, noIndex: true}
				old := b
				b = &builtG{t: t3, ps: build(c.G, t3)}
				limit = 16*c1 + 64
				pc := prepare()
				run(pc)
				if c3 := pc.ctx.CallCount(); c3 != c1 {
					e["calls2"] = c3
				}
				b = old
				abortedNow = false
			}
			if abortedNow {
				aborted[c.Fam]++
			}
		}); m != "" {
			e["calls1"], e["calls2"], e["ok"], e["panic"] = 0, 0, false, m
		}
		o.put(e)
		n++
	})
	o.close()
	fmt.Printf("{\"cases\":%d}\n", n)
}
