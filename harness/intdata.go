package main

// C15: data.IntSet / data.IntMap against spec/IntData.tla

import (
	"encoding/json"
	"fmt"
	"math/rand"
	"os"
	"reflect"
	"sort"

	"github.com/opsidian/parsley/data"
)

func init() { components["intdata"] = intdataMain }

type idOp struct {
	Op   string `json:"op"`
	Args []int  `json:"args"`
	A    int    `json:"a"`
	B    int    `json:"b"`
}

type idVal struct {
	isSet bool
	s     data.IntSet
	m     data.IntMap
	panic string // the operation that should have produced this value panicked
}

// observation of one value through the exported API only
func idObserve(v idVal, probe []int) (obs J) {
	if v.panic != "" {
		return J{"t": "panic", "o": v.panic, "n": -1}
	}
	defer func() { // an observer that panics is an observation, too
		if r := recover(); r != nil {
			obs = J{"t": "panic", "o": fmt.Sprint(r), "n": -1}
		}
	}()
	if v.isSet {
		o := []int{}
		v.s.Each(func(x int) { o = append(o, x) })
		return J{"t": "set", "o": o, "n": v.s.Len()}
	}
	keys := v.m.Keys()
	sort.Ints(keys)
	o := [][]int{}
	for _, k := range keys {
		o = append(o, []int{k, v.m.Get(k)})
	}
	e := [][]int{}
	v.m.Each(func(k, x int) { e = append(e, []int{k, x}) })
	sort.Slice(e, func(i, j int) bool { return e[i][0] < e[j][0] })
	g := [][]int{}
	for _, k := range probe {
		g = append(g, []int{k, v.m.Get(k)})
	}
	return J{"t": "map", "o": o, "n": len(keys), "e": e, "g": g}
}

// idApply: a panic of an operation is recorded as its (un)value; the model has no such value
func idApply(vals []idVal, op idOp) (out []idVal, err error) {
	defer func() {
		if r := recover(); r != nil {
			isSet := op.Op == "NewIntSet" || op.Op == "Insert" || op.Op == "Union" || op.Op == "EmptyIntSet"
			out, err = append(vals, idVal{isSet: isSet, panic: fmt.Sprint(r)}), nil
		}
	}()
	return idApply0(vals, op)
}

func idApply0(vals []idVal, op idOp) ([]idVal, error) {
	get := func(i int, set bool) (idVal, error) {
		if i < 1 || i > len(vals) || vals[i-1].isSet != set {
			return idVal{}, fmt.Errorf("bad operand %d for %s", i, op.Op)
		}
		return vals[i-1], nil
	}
	switch op.Op {
	case "NewIntSet":
		return append(vals, idVal{isSet: true, s: data.NewIntSet(op.Args...)}), nil
	case "Insert":
		a, err := get(op.A, true)
		if err != nil {
			return nil, err
		}
		return append(vals, idVal{isSet: true, s: a.s.Insert(op.Args[0])}), nil
	case "Union":
		a, err := get(op.A, true)
		if err != nil {
			return nil, err
		}
		b, err := get(op.B, true)
		if err != nil {
			return nil, err
		}
		return append(vals, idVal{isSet: true, s: a.s.Union(b.s)}), nil
	case "EmptyIntSet":
		return append(vals, idVal{isSet: true, s: data.EmptyIntSet}), nil
	case "EmptyIntMap":
		return append(vals, idVal{m: data.EmptyIntMap}), nil
	case "NewIntMap":
		m := map[int]int{}
		for i := 0; i+1 < len(op.Args); i += 2 {
			m[op.Args[i]] = op.Args[i+1]
		}
		return append(vals, idVal{m: data.NewIntMap(m)}), nil
	case "Inc":
		a, err := get(op.A, false)
		if err != nil {
			return nil, err
		}
		return append(vals, idVal{m: a.m.Inc(op.Args[0])}), nil
	case "Filter":
		a, err := get(op.A, false)
		if err != nil {
			return nil, err
		}
		b, err := get(op.B, true)
		if err != nil {
			return nil, err
		}
		return append(vals, idVal{m: a.m.Filter(b.s)}), nil
	}
	return nil, fmt.Errorf("unknown op %q", op.Op)
}

func norm(v interface{}) interface{} {
	b, _ := json.Marshal(v)
	var r interface{}
	json.Unmarshal(b, &r)
	return r
}

func intdataMain(mode string, a args) {
	switch mode {
	case "replay":
		// in: lines {"h":[ops], "exp":[{"t":..,"o":..}]}; the i-th expected observation is the
		// model's value produced by the i-th operation, which must read the same after EVERY later operation
		type tcase struct {
			H   []idOp `json:"h"`
			Exp []struct {
				T string      `json:"t"`
				O interface{} `json:"o"`
			} `json:"exp"`
		}
		cases, ops, comps := 0, 0, 0
		mism := []J{}
		var samples []interface{}
		readLines(a.str("in", ""), func(line []byte) {
			var c tcase
			if err := json.Unmarshal(line, &c); err != nil {
				die("bad case: %v", err)
			}
			cases++
			if len(samples) < 3 && cases%997 == 1 {
				samples = append(samples, json.RawMessage(append([]byte{}, line...)))
			}
			var vals []idVal
			bad := false
			for k, op := range c.H {
				var err error
				vals, err = idApply(vals, op)
				if err != nil {
					die("case %d: %v", cases, err)
				}
				ops++
				for i := range vals {
					got := idObserve(vals[i], nil)
					comps++
					want := c.Exp[i]
					if got["t"] != want.T || !reflect.DeepEqual(norm(got["o"]), norm(want.O)) {
						if !bad && len(mism) < 20 {
							mism = append(mism, J{"history": c.H[:k+1], "value_index": i + 1, "after_op": k + 1,
								"got": got, "want": want})
						}
						bad = true
					}
				}
			}
		})
		writeJSON(a.str("out", ""), J{"cases": cases, "ops": ops, "comparisons": comps, "mismatches": mism, "samples": samples})
	case "record":
		// apply a given history (JSON list of ops) to the real types and write the trace
		var ops []idOp
		b, err := os.ReadFile(a.str("ops", ""))
		if err != nil {
			die("%v", err)
		}
		if err := json.Unmarshal(b, &ops); err != nil {
			die("%v", err)
		}
		o := newOut(a.str("out", ""))
		o.put(J{"op": "reset", "case": 0})
		var vals []idVal
		probe := []int{-1, 0, 1, 2, 3, 4, 5, 6, 7, 8, 9, 10}
		for _, op := range ops {
			if op.Args == nil {
				op.Args = []int{}
			}
			vals, err = idApply(vals, op)
			if err != nil {
				die("%v", err)
			}
			obs := make([]J, len(vals))
			for i := range vals {
				obs[i] = idObserve(vals[i], probe)
			}
			o.put(J{"op": op.Op, "args": op.Args, "a": op.A, "b": op.B, "obs": obs})
		}
		o.close()
	case "gen":
		r := rand.New(rand.NewSource(int64(a.num("seed", 1))))
		n, nops, dom := a.num("n", 20), a.num("ops", 40), a.num("dom", 10)
		o := newOut(a.str("out", ""))
		probe := make([]int, dom+2)
		for i := range probe {
			probe[i] = i - 1
		}
		for c := 0; c < n; c++ {
			o.put(J{"op": "reset", "case": c})
			var vals []idVal
			hot := 0
			pick := func(set bool) int {
				// branching: several operations applied to the SAME earlier value expose aliasing between its descendants
				if hot > 0 && hot <= len(vals) && vals[hot-1].isSet == set && r.Intn(2) == 0 {
					return hot
				}
				var idx []int
				for i, v := range vals {
					if v.isSet == set {
						idx = append(idx, i+1)
					}
				}
				if len(idx) == 0 {
					return 0
				}
				// bias toward recent values and toward re-using one "hot" value (shared history)
				if r.Intn(3) == 0 {
					return idx[len(idx)-1-r.Intn(minInt(3, len(idx)))]
				}
				return idx[r.Intn(len(idx))]
			}
			for k := 0; k < nops; k++ {
				var op idOp
				switch x := r.Intn(10); {
				case (x < 2 || len(vals) == 0) && r.Intn(6) == 0:
					op = idOp{Op: []string{"EmptyIntSet", "EmptyIntMap"}[r.Intn(2)]} // the package-level values
				case x < 2 || len(vals) == 0:
					l := r.Intn(5)
					as := make([]int, l)
					for i := range as {
						as[i] = (r.Intn(dom) - 2)
						if i > 0 && r.Intn(3) == 0 {
							as[i] = as[i-1] // duplicates leave spare capacity
						}
					}
					op = idOp{Op: "NewIntSet", Args: as}
				case x < 4:
					if i := pick(true); i > 0 {
						op = idOp{Op: "Insert", A: i, Args: []int{(r.Intn(dom) - 2)}}
						hot = i
					}
				case x < 6:
					i, j := pick(true), pick(true)
					if i > 0 {
						op = idOp{Op: "Union", A: i, B: j}
						hot = i
					}
				case x < 7:
					l := r.Intn(4)
					seen := map[int]bool{}
					var as []int
					for i := 0; i < l; i++ {
						k := (r.Intn(dom) - 2)
						if !seen[k] {
							seen[k] = true
						}
					}
					for _, k := range sortedInts(seen) {
						as = append(as, k, r.Intn(5)-1) // -1..3: entries with the value 0 (and below) exist as well
					}
					op = idOp{Op: "NewIntMap", Args: as}
				case x < 9:
					if i := pick(false); i > 0 {
						op = idOp{Op: "Inc", A: i, Args: []int{(r.Intn(dom) - 2)}}
					}
				default:
					i, j := pick(false), pick(true)
					if i > 0 && j > 0 {
						op = idOp{Op: "Filter", A: i, B: j}
					}
				}
				if op.Op == "" {
					k--
					if len(vals) == 0 {
						k++
					}
					continue
				}
				if op.Args == nil {
					op.Args = []int{}
				}
				var err error
				vals, err = idApply(vals, op)
				if err != nil {
					die("%v", err)
				}
				obs := make([]J, len(vals))
				for i := range vals {
					obs[i] = idObserve(vals[i], probe)
				}
				o.put(J{"op": op.Op, "args": op.Args, "a": op.A, "b": op.B, "obs": obs})
			}
		}
		o.close()
		fmt.Printf("{\"histories\":%d,\"events\":%d}\n", n, o.n)
	default:
		die("intdata: unknown mode %q", mode)
	}
}

func minInt(a, b int) int {
	if a < b {
		return a
	}
	return b
}
