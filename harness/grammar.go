package main

// Grammars as data (the node records of spec/ParsleyMachine.tla), built from the REAL
// constructors of /repo, with a pass-through probe around every node.

import (
	"fmt"
	"sort"
	"strconv"
	"strings"

	"github.com/opsidian/parsley/ast"
	"github.com/opsidian/parsley/combinator"
	"github.com/opsidian/parsley/data"
	"github.com/opsidian/parsley/parser"
	"github.com/opsidian/parsley/parsley"
	"github.com/opsidian/parsley/text"
	"github.com/opsidian/parsley/text/terminal"
)

type gnode struct {
	K    string `json:"k"`
	Mode string `json:"mode"`
	Kids []int  `json:"kids"` // 1-based node ids
	Ch   int    `json:"ch"`
	Name string `json:"name"` // full error text ("was expecting ...") for term / named / named seq
}

const maxAlts = 120

type tooBig struct{}
type boundExceeded struct{}

type pframe struct {
	n    int
	pos  int
	body bool // a Memoize node that has called its operand
}

type tracer struct {
	g         []gnode
	ev        []J
	idx2n     map[int]int // real Memoize parser index -> node id
	stack     []pframe
	budget    int // max events per case
	over      bool
	bound     bool
	remain    func(pos int) int
	quiet     bool // do not record events (plain runs)
	preflight bool // count probe calls and sequence results only (budget check before the judged run)
	count     int
	topOnly   bool            // record the events of top-level calls only
	noIndex   bool            // C17: do not learn the Memoize indices (no parse before the measured ones)
	callLimit int             // C17: abort a run whose Context.CallCount() exceeds this (0: no limit)
	trees     bool            // render full trees in top-level returns
	watch     *watcher        // C07: re-observation of everything returned so far
	attempts  map[[2]int]bool // failed terminal/End attempts: (pos, node)
	nfails    map[[2]int]bool // named parsers that produced nothing: (pos, node)
	bodyRuns  map[[2]int]int  // C03: (memo node, pos) -> number of body runs
}

func errJ(e parsley.Error) []interface{} {
	if e == nil {
		return []interface{}{}
	}
	k := "o"
	if parsley.IsNotFoundError(e) {
		k = "nf"
	} else if parsley.IsWhitespaceError(e) {
		k = "ws"
	}
	return []interface{}{int(e.Pos()), k, e.Error()}
}

func nodeKind(x parsley.Node) string {
	switch x.(type) {
	case ast.EmptyNode:
		return "E"
	case parser.EndNode:
		return "EOF"
	case parsley.NonTerminalNode:
		return "N"
	}
	return "T"
}

func altsOf(n parsley.Node) []parsley.Node {
	if n == nil {
		return nil
	}
	if nl, ok := n.(ast.NodeList); ok {
		return []parsley.Node(nl)
	}
	return []parsley.Node{n}
}

// shallow1: [kind, start, end] and, for a non-terminal with exactly one child, that child's shallow value as 4th element
func shallow1(x parsley.Node) []interface{} {
	r := []interface{}{nodeKind(x), int(x.Pos()), int(x.ReaderPos())}
	if nt, ok := x.(parsley.NonTerminalNode); ok && len(nt.Children()) == 1 {
		r = append(r, shallow1(nt.Children()[0]))
	}
	return r
}

func shallow(n parsley.Node) [][]interface{} {
	res := [][]interface{}{}
	for _, x := range altsOf(n) {
		res = append(res, shallow1(x))
	}
	return res
}

// full tree: ["T",s,e,token] ["E",p,p] ["EOF",p,p] ["N",s,e,token,[kids]]
func treeOf(x parsley.Node) []interface{} {
	k := nodeKind(x)
	switch k {
	case "N":
		kids := []interface{}{}
		for _, c := range x.(parsley.NonTerminalNode).Children() {
			kids = append(kids, treeOf(c))
		}
		return []interface{}{k, int(x.Pos()), int(x.ReaderPos()), x.Token(), kids}
	case "T":
		return []interface{}{k, int(x.Pos()), int(x.ReaderPos()), x.Token()}
	}
	return []interface{}{k, int(x.Pos()), int(x.ReaderPos())}
}

func (t *tracer) lrcJ(l data.IntMap) [][]int {
	lrc := [][]int{}
	for _, k := range l.Keys() {
		id, ok := t.idx2n[k]
		if !ok {
			id = -k
		}
		lrc = append(lrc, []int{id, l.Get(k)})
	}
	sort.Slice(lrc, func(i, j int) bool { return lrc[i][0] < lrc[j][0] })
	return lrc
}

func (t *tracer) cpJ(cp data.IntSet) []int {
	cps := []int{}
	cp.Each(func(v int) {
		id, ok := t.idx2n[v]
		if !ok {
			id = -v
		}
		cps = append(cps, id)
	})
	sort.Ints(cps)
	return cps
}

func (t *tracer) probe(id int, p parsley.Parser) parser.Func {
	return func(ctx *parsley.Context, l data.IntMap, pos parsley.Pos) (parsley.Node, data.IntSet, parsley.Error) {
		t.count++
		if t.callLimit > 0 && ctx.CallCount() > t.callLimit {
			panic(tooBig{})
		}
		if len(t.ev) > t.budget || (t.preflight && t.count > 2*t.budget) {
			t.over = true
			panic(tooBig{})
		}
		// is this call the body of the Memoize node on top of the probe stack?
		bo, act := 0, 0
		if d := len(t.stack); d > 0 {
			top := &t.stack[d-1]
			if g := t.g[top.n-1]; g.K == "memo" && g.Kids[0] == id && top.pos == int(pos) {
				top.body = true
				bo = top.n
				if !t.quiet || t.remain != nil { // (quiet measuring runs do not need the activation count: O(depth) per call)
					for _, f := range t.stack {
						if f.n == top.n && f.pos == top.pos && f.body {
							act++
						}
					}
				}
				t.bodyRuns[[2]int{top.n, int(pos)}]++
			}
		}
		top := len(t.stack) == 0
		t.stack = append(t.stack, pframe{n: id, pos: int(pos)})
		if !t.quiet && (top || !t.topOnly || (bo > 0 && t.remain != nil && act > t.remain(int(pos))+2)) { // (topOnly still records a call that breaks the re-entry bound)
			e := J{"ev": "call", "n": id, "pos": int(pos), "lrc": t.lrcJ(l), "calls": ctx.CallCount(), "cerr": errJ(ctx.Error()), "bo": bo, "act": act}
			t.ev = append(t.ev, e)
		}
		if bo > 0 && t.remain != nil && act > t.remain(int(pos))+2+2 {
			// C02: the re-entry bound is exceeded by more than the slack; stop before the stack overflows
			t.bound = true
			panic(boundExceeded{})
		}
		n, cp, err := p.Parse(ctx, l, pos)
		t.stack = t.stack[:len(t.stack)-1]
		if t.preflight {
			if nl, ok := n.(ast.NodeList); ok && len(nl) > maxAlts {
				// explosively ambiguous: result lists of hundreds of alternatives are not judged
				t.over = true
				panic(tooBig{})
			}
		}
		if g := t.g[id-1]; (g.K == "term" || g.K == "end") && n == nil {
			t.attempts[[2]int{int(pos), id}] = true
		} else if (g.K == "named" || (g.K == "seq" && g.Name != "")) && n == nil {
			t.nfails[[2]int{int(pos), id}] = true
		}
		if !t.quiet && (top || !t.topOnly) {
			e := J{"ev": "ret", "n": id, "pos": int(pos), "res": shallow(n), "cp": t.cpJ(cp), "err": errJ(err),
				"calls": ctx.CallCount(), "cerr": errJ(ctx.Error()), "top": top}
			if top {
				e["att"] = pairList(t.attempts)
				e["nat"] = pairList(t.nfails)
			}
			if top && t.trees {
				tr := []interface{}{}
				for _, x := range altsOf(n) {
					tr = append(tr, treeOf(x))
				}
				e["trees"] = tr
			}
			t.ev = append(t.ev, e)
		}
		if t.watch != nil {
			t.watch.returned(id, int(pos), n)
		}
		return n, cp, err
	}
}

var nilInterp = ast.InterpreterFunc(func(userCtx interface{}, node parsley.NonTerminalNode) (interface{}, parsley.Error) {
	return len(node.Children()), nil
})

func wsMode(m string) text.WsMode {
	switch m {
	case "none":
		return text.WsNone
	case "spaces":
		return text.WsSpaces
	case "nl":
		return text.WsSpacesNl
	case "forcenl":
		return text.WsSpacesForceNl
	}
	die("bad ws mode %q", m)
	return 0
}

func stripExpect(s string) string { return strings.TrimPrefix(s, "was expecting ") }

// memoBase: the value of combinator's package-level parser counter, learned through the exported
// API: a dummy Memoize is evaluated once and its only cache key is its index.
func memoBase() int {
	d := combinator.Memoize(parser.Empty())
	f := text.NewFile("x", nil)
	ctx := parsley.NewContext(parsley.NewFileSet(f), text.NewReader(f))
	d.Parse(ctx, data.EmptyIntMap, f.Pos(0))
	// only the methods of the cache are used (not its representation): indices are handed out in ascending order,
	// so the search starts at the last index seen
	for k := lastMemoIndex; k < lastMemoIndex+(1<<22); k++ {
		if _, ok := ctx.ResultCache().Get(k, f.Pos(0), data.EmptyIntMap); ok {
			lastMemoIndex = k
			return k
		}
	}
	die("cannot learn the memoize index")
	return -1
}

var lastMemoIndex = 0

// build constructs the real parsers of G (single-threaded: Memoize indices are base+1, base+2, ...)
func build(G []gnode, t *tracer) []parsley.Parser {
	t.g = G
	if t.idx2n == nil {
		t.idx2n = map[int]int{}
	}
	if t.attempts == nil {
		t.attempts = map[[2]int]bool{}
	}
	if t.nfails == nil {
		t.nfails = map[[2]int]bool{}
	}
	if t.bodyRuns == nil {
		t.bodyRuns = map[[2]int]int{}
	}
	base := 0
	if !t.noIndex {
		base = memoBase()
	}
	ps := make([]parsley.Parser, len(G))
	fs := make([]parser.Func, len(G))
	for i := range G {
		ps[i] = &fs[i]
	}
	for i, n := range G {
		kids := make([]parsley.Parser, len(n.Kids))
		for j, k := range n.Kids {
			if k < 1 || k > len(G) {
				die("bad kid %d of node %d", k, i+1)
			}
			kids[j] = ps[k-1]
		}
		var p parsley.Parser
		switch n.K {
		case "term":
			p = terminal.Rune(rune(n.Ch))
		case "empty":
			p = parser.Empty()
		case "end":
			p = parser.End()
		case "opt":
			p = combinator.Optional(kids[0])
		case "any":
			p = combinator.Any(kids...)
		case "choice":
			p = combinator.Choice(kids...)
		case "named":
			p = parser.ReturnError(kids[0], parsley.NotFoundError(stripExpect(n.Name)))
		case "pass":
			p = kids[0]
		case "single":
			p = combinator.Single(kids[0])
		case "suppress":
			p = combinator.SuppressError(kids[0])
		case "memo":
			p = combinator.Memoize(kids[0])
			base++
			t.idx2n[base] = i + 1
		case "seq":
			var s *combinator.Sequence
			switch n.Mode {
			case "of":
				s = combinator.SeqOf(kids...)
			case "try":
				s = combinator.SeqTry(kids...)
			case "foa":
				s = combinator.SeqFirstOrAll(kids...)
			case "many":
				s = combinator.Many(kids[0])
			case "many1":
				s = combinator.Many1(kids[0])
			case "sepby":
				s = combinator.SepBy(kids[0], kids[1])
			case "sepby1":
				s = combinator.SepBy1(kids[0], kids[1])
			default:
				die("bad seq mode %q", n.Mode)
			}
			s = s.Bind(nilInterp)
			if t.preflight {
				// the pre-flight run only measures the amount of work: it also counts sequence results,
				// which the judged run (default result handler, untouched) cannot do
				s = s.HandleResult(combinator.SeqResultHandlerFunc(func(pos parsley.Pos, token string, nodes []parsley.Node, interp parsley.Interpreter) parsley.Node {
					t.count++
					if t.count > 2*t.budget {
						t.over = true
						panic(tooBig{})
					}
					if len(nodes) == 0 {
						return ast.NewEmptyNonTerminalNode(token, pos, interp)
					}
					c := make([]parsley.Node, len(nodes))
					copy(c, nodes)
					return ast.NewNonTerminalNode(token, c, interp)
				}))
			}
			if n.Name != "" {
				s = s.Name(stripExpect(n.Name))
			}
			p = s
		case "ltrim":
			p = text.LeftTrim(kids[0], wsMode(n.Mode))
		case "rtrim":
			p = text.RightTrim(kids[0], wsMode(n.Mode))
		default:
			die("bad node kind %q", n.K)
		}
		fs[i] = t.probe(i+1, p)
	}
	return ps
}

func termName(ch int) string { return "was expecting " + strconv.Quote(string(rune(ch))) }

func gString(G []gnode) string {
	var sb strings.Builder
	for i, n := range G {
		fmt.Fprintf(&sb, "%d:%s%s", i+1, n.K, n.Mode)
		if n.K == "term" {
			fmt.Fprintf(&sb, "'%c'", rune(n.Ch))
		}
		if len(n.Kids) > 0 {
			fmt.Fprint(&sb, n.Kids)
		}
		sb.WriteString(" ")
	}
	return sb.String()
}

// fileAt places content in a file set so that the file's base offset is `base`
// earlyReaders: for even bases the reader is created BEFORE the file is added to its file set (a legal order of set-up, used
// by the repository's own benchmark); readerFor returns that reader
var earlyReaders = map[*text.File]*text.Reader{}

// mkFile creates a text.File from a buffer the caller then re-uses: a file keeps the content it was created with
func mkFile(name string, content []byte) *text.File {
	buf := append(make([]byte, 0, len(content)+8), content...)
	f := text.NewFile(name, buf)
	for i := range buf {
		buf[i] = 'z' - byte(i%3)
	}
	return f
}

func fileAt(content []byte, base int) (*text.File, *parsley.FileSet) {
	f := mkFile("f", content)
	if base <= 1 {
		return f, parsley.NewFileSet(f)
	}
	if len(earlyReaders) > 64 {
		earlyReaders = map[*text.File]*text.Reader{}
	}
	if base%2 == 0 {
		earlyReaders[f] = text.NewReader(f)
		if base%4 == 0 {
			_ = earlyReaders[f].IsEOF(f.Pos(0)) // ... and used before the file has its place
		}
	}
	pad := text.NewFile("pad", make([]byte, base-2))
	fs := parsley.NewFileSet(pad, f)
	if base%3 == 0 {
		_ = fs.Position(parsley.Pos(1)).String() // a lookup in the earlier file before the parsed one is used (history on the set)
	}
	return f, fs
}

func readerFor(f *text.File) *text.Reader {
	if r, ok := earlyReaders[f]; ok {
		return r
	}
	return text.NewReader(f)
}

func pairList(m map[[2]int]bool) [][]int {
	r := [][]int{}
	for k := range m {
		r = append(r, []int{k[0], k[1]})
	}
	sort.Slice(r, func(i, j int) bool {
		if r[i][0] != r[j][0] {
			return r[i][0] < r[j][0]
		}
		return r[i][1] < r[j][1]
	})
	return r
}
