package main

// C16: the example JSON parser (examples/json/json, a black box) against encoding/json on documents that
// spec/JsonDoc.tla renders and classifies

import (
	"bytes"
	encjson "encoding/json"
	"fmt"
	"math/rand"
	"sort"
	"strings"

	"github.com/opsidian/parsley/combinator"
	jsonex "github.com/opsidian/parsley/examples/json/json"
	"github.com/opsidian/parsley/parsley"
	"github.com/opsidian/parsley/text"
)

func init() { components["jsondoc"] = jsondocMain }

var jsonP = combinator.Sentence(text.Trim(jsonex.NewParser())) // built once, reused

func jsonAgree(p interface{}, j interface{}) bool {
	switch pv := p.(type) {
	case map[string]interface{}:
		jm, ok := j.(map[string]interface{})
		if !ok || len(jm) != len(pv) {
			return false
		}
		for k, v := range pv {
			jv, ok := jm[k]
			if !ok || !jsonAgree(v, jv) {
				return false
			}
		}
		return true
	case []interface{}:
		ja, ok := j.([]interface{})
		if !ok || len(ja) != len(pv) {
			return false
		}
		for i := range pv {
			if !jsonAgree(pv[i], ja[i]) {
				return false
			}
		}
		return true
	case int64:
		n, ok := j.(encjson.Number)
		if !ok {
			return false
		}
		v, err := n.Int64()
		return err == nil && v == pv
	case float64:
		n, ok := j.(encjson.Number)
		if !ok {
			return false
		}
		v, err := n.Float64()
		return err == nil && v == pv
	case string:
		s, ok := j.(string)
		return ok && s == pv
	case bool:
		b, ok := j.(bool)
		return ok && b == pv
	case nil:
		return j == nil
	}
	return false
}

func jsonSkel(p interface{}) string {
	switch pv := p.(type) {
	case map[string]interface{}:
		keys := make([]string, 0, len(pv))
		for k := range pv {
			keys = append(keys, k)
		}
		sort.Strings(keys)
		var sb strings.Builder
		sb.WriteString("{")
		for _, k := range keys {
			sb.WriteString("\"" + k + "\":" + jsonSkel(pv[k]) + ";")
		}
		sb.WriteString("}")
		return sb.String()
	case []interface{}:
		parts := make([]string, len(pv))
		for i := range pv {
			parts[i] = jsonSkel(pv[i])
		}
		return "[" + strings.Join(parts, ",") + "]"
	case int64:
		return "i"
	case float64:
		return "f"
	case string:
		return "s"
	case bool:
		return "b"
	case nil:
		return "n"
	}
	return "?"
}

// randLiteral: the source text of a scalar as a sequence of one-character strings; the specification classifies it by
// its syntax (JsonDoc!LitClass), the generator only aims: integers around the int64 bounds, decimals of 1..20 digits
// with and without exponent, strings with every escape and non-ASCII characters; !supported adds damaged literals
func randLiteral(r *rand.Rand, supported bool) []string {
	digits := func(n int, first bool) string {
		b := make([]byte, n)
		for i := range b {
			b[i] = byte('0' + r.Intn(10))
			if i == 0 && first && n > 1 && b[i] == '0' {
				b[i] = byte('1' + r.Intn(9))
			}
		}
		return string(b)
	}
	var lit string
	switch r.Intn(3) {
	case 0: // integer
		switch r.Intn(4) {
		case 0:
			lit = []string{"9223372036854775807", "-9223372036854775808", "9223372036854775806", "-9223372036854775807", "0", "-0", "-1", "1000000000000000000"}[r.Intn(8)]
		case 1:
			lit = digits(17+r.Intn(3), true)
		default:
			lit = digits(1+r.Intn(10), true)
		}
		if r.Intn(3) == 0 && lit[0] != '-' {
			lit = "-" + lit
		}
	case 1: // decimal
		ip := digits(1+r.Intn(12), true)
		if r.Intn(4) == 0 {
			ip = "0"
		}
		lit = ip + "." + digits(1+r.Intn(18-minInt(len(ip), 12)), false)
		if r.Intn(3) == 0 {
			lit += []string{"e", "E"}[r.Intn(2)] + []string{"", "+", "-"}[r.Intn(3)] + digits(1+r.Intn(2), false)
		}
		if r.Intn(3) == 0 {
			lit = "-" + lit
		}
	default: // string
		parts := []string{"a", "b", "Z", " ", "0", "/", "'", "é", "世", "ß", "{", "]", ",", ":", `\"`, `\\`, `\n`, `\t`, `\r`, `\b`, `\f`,
			`\u00e9`, `\u4e16`, `\u0041`, `\u0000`, `\u001F`, `\uFFFD`, `\u00E9`}
		lit = `"`
		for k := r.Intn(9); k > 0; k-- {
			lit += parts[r.Intn(len(parts))]
		}
		lit += `"`
	}
	if !supported && r.Intn(3) == 0 {
		// damage: Go-style numbers, foreign escapes, missing quote ...
		switch r.Intn(6) {
		case 0:
			lit = "0" + lit
		case 1:
			lit = strings.Replace(lit, ".", "", 1)
		case 2:
			lit = strings.Replace(lit, `\`, `\/`, 1)
		case 3:
			if len(lit) > 1 {
				lit = lit[:len(lit)-1]
			}
		case 4:
			lit = strings.Replace(lit, `\u`, `\ud8`, 1)
		default:
			lit += "e5"
		}
	}
	var cs []string
	for _, c := range lit {
		cs = append(cs, string(c))
	}
	return cs
}

func jsonObserve(txt string) J {
	o := J{"pok": false, "perr": false, "jok": false, "agree": false, "skel": "", "panic": false, "perrtext": ""}
	o["again"] = true
	var pval interface{}
	if m := safely(func() {
		f := mkFile("f", []byte(txt))
		// the same file is evaluated twice (fresh context and reader each time), as the example's benchmark does
		ctx0 := parsley.NewContext(parsley.NewFileSet(f), text.NewReader(f))
		v0, err0 := parsley.Evaluate(ctx0, jsonP)
		ctx := parsley.NewContext(parsley.NewFileSet(f), text.NewReader(f))
		v, err := parsley.Evaluate(ctx, jsonP)
		o["again"] = fmt.Sprintf("%v|%v", v0, err0) == fmt.Sprintf("%v|%v", v, err)
		if err != nil {
			o["perr"] = true
			o["perrtext"] = err.Error()
		} else {
			o["pok"] = true
			pval = v
			o["skel"] = jsonSkel(v)
		}
	}); m != "" {
		o["panic"] = true
		o["panictext"] = m
	}
	dec := encjson.NewDecoder(bytes.NewReader([]byte(txt)))
	dec.UseNumber()
	var jv interface{}
	if encjson.Valid([]byte(txt)) && dec.Decode(&jv) == nil {
		o["jok"] = true
		if o["pok"] == true {
			o["agree"] = jsonAgree(pval, jv)
		}
	}
	return o
}

func jsondocMain(mode string, a args) {
	switch mode {
	case "observe", "rerun":
		o := newOut(a.str("out", ""))
		n, nontriv := 0, 0
		readLines(a.str("in", ""), func(line []byte) {
			var c J
			if err := encjson.Unmarshal(line, &c); err != nil {
				die("bad case: %v", err)
			}
			txt, _ := c["text"].(string)
			e := J{"v": c["v"], "pat": c["pat"], "cor": c["cor"], "text": txt}
			for k, v := range jsonObserve(txt) {
				e[k] = v
			}
			o.put(e)
			n++
			if c["class"] == "supported" || c["class"] == "corrupt" {
				nontriv++
			}
		})
		o.close()
		fmt.Printf("{\"cases\":%d,\"nontrivial\":%d}\n", n, nontriv)
	case "abstract":
		// random abstract documents; rendering and classification are done by the specification (JsonDocRender)
		r := rand.New(rand.NewSource(int64(a.num("seed", 1))))
		o := newOut(a.str("out", ""))
		n, maxd := a.num("n", 100), a.num("maxdepth", 6)
		var gen func(d int, supported bool) interface{}
		gen = func(d int, supported bool) interface{} {
			x := r.Intn(10)
			if d >= maxd || x < 4 {
				if r.Intn(2) == 0 {
					return []interface{}{"c", randLiteral(r, supported)}
				}
				if supported || r.Intn(12) > 0 {
					return []interface{}{"s", 1 + r.Intn(14)}
				}
				return []interface{}{"s", 15 + r.Intn(8)}
			}
			k := r.Intn(5)
			if x < 7 {
				xs := []interface{}{}
				for i := 0; i < k; i++ {
					xs = append(xs, gen(d+1, supported))
				}
				return []interface{}{"arr", xs}
			}
			ms := []interface{}{}
			for i := 0; i < k; i++ {
				ms = append(ms, []interface{}{1 + r.Intn(4), gen(d+1, supported)})
			}
			return []interface{}{"obj", ms}
		}
		for i := 0; i < n; i++ {
			supported := r.Intn(4) > 0
			var pat []int
			for k := 1 + r.Intn(6); k > 0; k-- {
				if supported {
					pat = append(pat, []int{1, 2, 4}[r.Intn(3)]) // no line break anywhere: certainly inside the subset
				} else {
					pat = append(pat, 1+r.Intn(7))
				}
			}
			kind := "none"
			if r.Intn(3) == 0 {
				kind = []string{"trunc", "trail", "drop", "comma"}[r.Intn(4)]
			}
			v := gen(0, supported)
			if i%40 == 3 {
				// one list of several hundred elements (the length of a list is not bounded by the grammar)
				xs := []interface{}{}
				for k := 260 + r.Intn(200); k > 0; k-- {
					xs = append(xs, []interface{}{"s", []int{6, 12, 14}[r.Intn(3)]})
				}
				v, kind = []interface{}{"arr", xs}, "none"
				pat = []int{1, 2}
			}
			o.put(J{"v": v, "pat": pat, "kind": kind, "r": r.Intn(1000)})
		}
		o.close()
		fmt.Printf("{\"cases\":%d}\n", n)
	default:
		die("jsondoc: unknown mode %q", mode)
	}
}
