"""C02 - termination and the re-entry bound (ParsleyMachine!ReentryBound on the model and on every real call event)."""
from .. import core, parsefam

AB = [97, 98]
ABX = [97, 98, 120]
ABXY = [97, 98, 120, 121]


def run(r):
    th = r.tier == "thorough"
    s = r.seed
    if th:
        fams = [("HID", 4, ABXY, 1, [0], {}), ("CAT", 4, ABX, 1, [0], {}),
                ("F1", 3, AB, 16, [(s + i) % 16 for i in range(8)], {}),
                ("F3", 3, AB, 32, [(s + i) % 32 for i in range(4)], {}),
                ("NM", 3, AB, 8, [(s + i) % 8 for i in range(3)], {}),
                ("HID2", 4, [97, 98, 99, 100], 8, [(s + i) % 8 for i in range(3)], {}), ("TLR", 4, [97, 98, 32, 120], 1, [0], {})]
        rnd = [(500, dict(maxlen=6, share=1, named=0)), (200, dict(maxlen=5, share=1, named=2, base=0, seed_off=1))]
    else:
        fams = [("HID", 3, ABXY, 1, [0], {}), ("CAT", 3, ABX, 2, [s % 2], {}), ("F1", 3, AB, 48, [(s + 7) % 48], {}),
                ("HID2", 3, [97, 98, 99, 100, 120], 24, [(s + 3) % 24], {}), ("TLR", 3, [97, 98, 32], 1, [0], {}), ("HIDR", 4, AB, 3, [(s + 1) % 3], {})]
        rnd = [(100, dict(maxlen=5, share=1, named=0)), (50, dict(maxlen=4, share=1, named=0, base=0, seed_off=3))]
    parsefam.run_plan(r, {"props": ["C02"], "families": fams, "random": rnd})
    r.extra["long_inputs"] = parsefam.long_inputs(r, ["C02"], [70, 130] if r.tier == "thorough" else [66 + r.seed % 9])
    if th:
        # termination as a liveness property (weak fairness of the machine's steps) on a small configuration
        o = r.tlc("ParsleyMC", cfg_text=parsefam.mc_cfg("CAT", 2, ABX, export=False, liveness=True, deadlock=False), workers=core.NCPU, timeout=1500)
        if not o.ok:
            if o.error and "violated" in o.error:
                parsefam.handle_model_violation(r, o, ["C02"], "ParsleyMC liveness Terminates")
            else:
                raise core.Inconclusive("liveness run did not finish: %r" % o)
        r.extra["liveness"] = {"property": "<>Fin under WF(Step)", "states": o.distinct, "ok": o.ok}
        # negative control at design level: the pinned Seq reset (defect D2) must violate ReentryBound in the model
        o = r.tlc("ParsleyMC", cfg_text=parsefam.mc_cfg("HID", 3, ABXY, export=False, pinned_seq=True), workers=core.NCPU, timeout=900, count=False)
        r.extra["control_pinned_seq_reset_violates_ReentryBound"] = bool(o.error and "ReentryBound" in o.error)
        if not r.extra["control_pinned_seq_reset_violates_ReentryBound"]:
            raise core.Inconclusive("negative control failed: PinnedSeqReset=TRUE does not violate ReentryBound (%r)" % o)
    r.rule = ("every (grammar, input) of the explored families incl. hidden left recursion behind nullable prefixes; on the real code the probes "
              "count the body activations of every memoised parser per position and stop a run that exceeds Remaining+2 by more than 2; "
              "the bound is judged by TLC on every recorded call event. distinct_nontrivial = exported cases with a derivation")
    r.assumptions = ["termination is decided through the re-entry bound (in a memoised grammar every infinite recursion re-enters some memoised parser "
                     "at one position unboundedly often) plus a liveness check of the model on a small configuration",
                     "bounded families / input lengths; runs cut by the budget of the exploration are counted, not judged"]


def replay(r, case):
    return parsefam.replay_one(r, case, ["C02"])
