"""C03 - Memoize is transparent, deterministic and evaluates at most once per position."""
import json

from .. import core, parsefam

AB = [97, 98]


def judge_c03(r, files):
    jobs = [dict(module="C03Trace", cfg="C03Trace.cfg", workers=1, env={"TRACE": f}, timeout=1500) for f in files]
    outs = r.tlc_parallel(jobs)
    ok = 0
    for f, o in zip(files, outs):
        rows = core.read_ndjson(f)
        cur = rows
        guard = 0
        while True:
            if o.ok:
                ok += len(cur)
                break
            if not o.rejected_line:
                raise core.Inconclusive("C03Trace did not finish: %r\n%s" % (o, core.tail(o.out_path, 20)))
            k = min(o.rejected_line, len(cur)) - 1
            row = cur[k]
            msg = parsefam.judge_message(o)
            case = {"kind": "c03", "G": row["G"], "w": row["w"], "B": row["B"], "asks": [[a["n"], a["p"]] for a in row["memo"]],
                    "key": parsefam.case_key(row), "grammar": parsefam.gtext(row["G"]), "input": parsefam.wtext(row["w"])}
            r.violation(case, "%s on grammar [%s] input %r" % (msg or "C03 predicate false", parsefam.gtext(row["G"]), parsefam.wtext(row["w"])))
            cur = cur[k + 1:]
            guard += 1
            if not cur or guard > 5:
                break
            p = r.path("c03-rest-%d.ndjson" % r._k)
            core.write_ndjson(p, cur)
            o = r.tlc("C03Trace", cfg="C03Trace.cfg", workers=1, env={"TRACE": p}, timeout=1500)
    r.traces += ok
    r.evaluations += ok
    return ok


def run(r):
    th = r.tier == "thorough"
    s = r.seed
    wraps = ["none", "all", "odd", "even"]
    if th:
        fams = [("LRF", 4, AB, 4, [i], {"wrap": wraps[i % 4], "twophase": True}) for i in range(4)] + \
               [("LRF", 3, AB, 2, [i], {"wrap": wraps[(i + 1) % 4], "twophase": True}) for i in range(2)] + \
               [("LRN", 5, AB, 2, [i], {"wrap": wraps[i * 2], "twophase": True}) for i in range(2)] + \
               [("DUPS", 4, [97, 98, 120, 32], 2, [i], {"wrap": wraps[i * 2], "twophase": True}) for i in range(2)]
        nrnd, maxlen = 600, 7
    else:
        fams = [("LRF", 3, AB, 8, [s % 8], {"wrap": "all", "twophase": True}), ("LRF", 3, AB, 8, [(s + 3) % 8], {"wrap": wraps[s % 4], "twophase": True}),
                ("LRN", 4, AB, 1, [0], {"wrap": wraps[(s + 1) % 2 * 2], "twophase": True}),
                ("DUPS", 3, [97, 98, 120, 32], 1, [0], {"wrap": "none", "twophase": True})]
        nrnd, maxlen = 120, 5
    # model: AtMostOnce + Transparent (memoised run, then the same asks on the grammar with every Memoize removed);
    # the exported cases are replayed (conformance of the memoised runs with the machine) ...
    parsefam.run_plan(r, {"props": [], "families": fams, "random": []})
    # ... and compared on the real code: memoised vs plain vs memoised again
    files = []
    k = 0
    for f in r.extra["families"]:
        pass
    import glob
    for inp in sorted(glob.glob(r.path("cases-LR[FN]-*.ndjson")) + glob.glob(r.path("cases-DUPS-*.ndjson"))):
        out = r.path("c03-%d.ndjson" % k)
        k += 1
        r.pvh("parse", "c03", **{"in": inp, "out": out})
        files.append(out)
    chunks = 6 if th else 2
    for c in range(chunks):
        out = r.path("c03-rnd-%d.ndjson" % c)
        r.pvh("parse", "c03", seed=r.seed * 131 + c, n=nrnd // chunks, maxlen=maxlen, out=out)
        files.append(out)
    n = judge_c03(r, files)
    r.extra["c03_comparisons"] = n
    with open(files[-1]) as fh:
        row = json.loads(fh.readline())
    r.samples.append({"direction": "code->model (C03Trace)", "grammar": parsefam.gtext(row["G"]), "input": parsefam.wtext(row["w"]),
                      "memo_root": {k2: row["memo"][0][k2] for k2 in ("res", "err", "cerr", "calls")}, "plain_root_calls": row["plain"][0]["calls"]})
    r.rule = ("left-recursion-free grammars with Memoize around the nonterminals and around all / alternating / random subsets of the other sub-parsers; "
              "model: TLC checks AtMostOnce in every state and Transparent at the end of the two-phase behaviour; code: memoised build, plain build and the "
              "memoised build again on a fresh context, root + asks, compared by C03Trace on full trees, returned errors, furthest-error position, call count "
              "and body runs per position")
    r.assumptions = ["left-recursion-free is re-asserted by TLC (Derivation!LRFree) for every judged grammar", "bounded families, inputs <= 7 bytes"]


def replay(r, case):
    c = {"G": case["G"], "w": case["w"], "B": case["B"], "adm": True,
         "asks": [{"n": a[0], "p": a[1], "res": [], "err": [], "calls": 0, "cerr": [], "ends": []} for a in case["asks"]]}
    inp = r.path("one.ndjson")
    core.write_ndjson(inp, [c])
    out = r.path("one-c03.ndjson")
    r.pvh("parse", "c03", **{"in": inp, "out": out})
    o = r.tlc("C03Trace", cfg="C03Trace.cfg", workers=1, env={"TRACE": out}, timeout=600)
    if o.ok:
        return None
    if o.rejected_line:
        return parsefam.judge_message(o) or "C03 predicate false"
    raise core.Inconclusive("replay did not finish: %r" % o)
