"""C17 - work stays polynomial on unambiguous grammars (C17MC on ParsleyMachine, C17Trace on real call counts)."""
import json

from .. import core

FAMS = ["lr", "lr2", "arith", "arithnest", "prec5", "mutual", "hidden", "brackets", "brackets2", "seplist"]


def cfg(sizes, run_machine):
    return ('CONSTANTS PinnedSeqReset = FALSE PinnedAnyDrop = FALSE Fams = {%s} Sizes = {%s} RunMachine = %s Variants = {"good", "bad"}\n'
            'INIT Init\nNEXT Next\nINVARIANTS %s Export\nCHECK_DEADLOCK FALSE\n' % (
                ", ".join('"%s"' % f for f in FAMS), ", ".join(map(str, sizes)), str(run_machine).upper(),
                "Accepts" if run_machine else ""))


def run(r):
    th = r.tier == "thorough"
    msizes = [2, 4, 8, 16, 32] + ([64] if th else [])
    rsizes = [8, 16, 32, 64, 128, 256, 512] + ([1024] if th else [])
    # (1) the machine on the small sizes: its call count is the model's prediction
    m = r.tlc("C17MC", cfg_text=cfg(msizes, True), workers=core.NCPU, timeout=1700)
    if not m.ok:
        raise core.Inconclusive("C17MC failed: %r\n%s" % (m, core.tail(m.out_path, 20)))
    # (2) inputs of the large sizes from the specification's input functions (no machine run)
    big = r.tlc("C17MC", cfg_text=cfg([s for s in rsizes if s not in msizes], False), workers=4, timeout=600, count=False)
    if not big.ok:
        raise core.Inconclusive("C17MC (inputs) failed: %r" % big)
    cases = sorted(m.prints + big.prints, key=lambda c: (c["fam"], c["n"]))
    # (five left-recursive levels under 256 nested parentheses need a goroutine stack beyond Go's 1 GB limit)
    def nesting(c):
        return c["n"] // 2 if c["fam"].endswith("/good") else c["n"] - 1
    cases = [c for c in cases if not (c["fam"].startswith("prec5") and nesting(c) > 150)]
    cases = [c for c in cases if not (c["fam"].split("/")[0] in ("arithnest", "brackets", "brackets2") and nesting(c) > 300)]
    # one cold process per family and variant: the measured grammar is the first thing the library does in its process
    from concurrent.futures import ThreadPoolExecutor
    groups = {}
    for c in cases:
        groups.setdefault(c["fam"], []).append(c)

    def measure(item):
        k, (fam, cs) = item
        inp, out = r.path("c17-cases-%d.ndjson" % k), r.path("c17-real-%d.ndjson" % k)
        core.write_ndjson(inp, cs)
        r.pvh("parse", "c17", **{"in": inp, "out": out}, timeout=3000)
        return core.read_ndjson(out)
    r.pvh_bin()
    with ThreadPoolExecutor(max_workers=min(core.NCPU, 8)) as ex:
        parts = list(ex.map(measure, enumerate(sorted(groups.items()))))
    rows = [x for part in parts for x in part]
    out = r.path("c17-real.ndjson")
    core.write_ndjson(out, rows)
    # binding: real CallCount = machine calls wherever the machine was run (a difference is drift, not a violation)
    bound = 0
    for row in rows:
        if row["mcalls"] >= 0:
            if row["mcalls"] == row["calls1"]:
                bound += 1
            else:
                r.drift.append("call count of family %s n=%d: real %d, ParsleyMachine %d" % (row["fam"], row["n"], row["calls1"], row["mcalls"]))
    # (3) the property on the real table, judged by TLC
    o = r.tlc("C17Trace", cfg="C17Trace.cfg", workers=1, env={"TRACE": out}, timeout=600)
    if o.ok:
        r.traces += len(rows)
    elif o.rejected_line:
        row = rows[min(o.rejected_line, len(rows)) - 1]
        r.violation({"kind": "c17", "row": row, "table": [x for x in rows if x["fam"] == row["fam"]], "key": "c17-%s-%d" % (row["fam"].replace("/", "-"), row["n"])},
                    "family %s n=%d: calls %s (runs %s/%s, accepted %s) violates the doubling / determinism predicate" % (
                        row["fam"], row["n"], row["calls1"], row["calls1"], row["calls2"], row["ok"]))
    else:
        raise core.Inconclusive("C17Trace did not finish: %r" % o)
    r.evaluations += len(rows)
    r.nontrivial += len([x for x in rows if x["n"] >= 8])
    table = {}
    for row in rows:
        table.setdefault(row["fam"], []).append([row["n"], row["calls1"]])
    r.extra["real_call_counts"] = table
    r.extra["machine_equals_real_on"] = bound
    r.samples.append({"family": "arith", "table_n_calls": table.get("arith")})
    r.rule = ("the families of the property (P -> P b | a, P -> P b | P c | a, expr/term/factor on flat and on nested-parenthesis inputs, mutually left-recursive pair, hidden left recursion, nested brackets, separated "
              "lists); each family on inputs of its language and on inputs outside it (unclosed nest, dangling operator / separator, foreign last byte), one cold process per family; ParsleyMachine is run for n <= %d and its call count must equal the real Context.CallCount() (binding); the real combinators are "
              "measured twice for n in %s and C17Trace checks calls(2n) <= 16 calls(n) for n >= 8, determinism and acceptance" % (max(msizes), rsizes))
    r.assumptions = ["the polynomial bound is the doubling test the property states, not an asymptotic proof", "one input shape per family and size"]
    r.exhaustive = False


def replay(r, case):
    # re-measure the family of the recorded row
    base = case["row"]["fam"].split("/")[0]
    sizes = [8, 16, 32, 64, 128, 256, 512]
    m = r.tlc("C17MC", cfg_text=cfg(sizes, False).replace("Fams = {%s}" % ", ".join('"%s"' % f for f in FAMS), 'Fams = {"%s"}' % base), workers=4, timeout=600, count=False)
    cases = [c for c in m.prints if c["fam"] == case["row"]["fam"]]
    inp = r.path("c17-cases.ndjson")
    core.write_ndjson(inp, sorted(cases, key=lambda c: c["n"]))
    out = r.path("c17-real.ndjson")
    r.pvh("parse", "c17", **{"in": inp, "out": out})
    o = r.tlc("C17Trace", cfg="C17Trace.cfg", workers=1, env={"TRACE": out}, timeout=600)
    if o.ok:
        return None
    return "doubling / determinism predicate false at line %s" % o.rejected_line
