"""C07 - a returned result is never modified afterwards."""
from .. import core, parsefam

AB = [97, 98]
ABS = [97, 98, 32]


def run(r):
    th = r.tier == "thorough"
    s = r.seed
    if th:
        fams = [("CAT", 3, AB, 1, [0], {}), ("F2", 3, AB, 8, list(range(8)), {}), ("OPT", 3, AB, 1, [0], {}),
                ("NM", 3, AB, 8, [(s + i) % 8 for i in range(3)], {}), ("HID2", 3, [97, 98, 99, 100], 12, [(s + i) % 12 for i in range(2)], {}),
                ("TSH", 4, ABS, 1, [0], {}), ("LRF", 3, AB, 4, [s % 4], {"wrap": "all"}),
                ("F1", 3, AB, 16, [(s + i) % 16 for i in range(4)], {}), ("SNG", 4, AB, 1, [0], {})]
        rnd = [(500, dict(maxlen=5, share=1, named=0, watch=1)), (200, dict(maxlen=6, share=1, named=2, watch=1, seed_off=1)),
               (600, dict(tmpl="share", named=0, watch=1, seed_off=5))]
    else:
        fams = [("CAT", 3, AB, 1, [0], {}), ("F2", 3, AB, 12, [s % 12], {}), ("OPT", 3, AB, 4, [(s + 1) % 4], {}),
                ("TSH", 3, ABS, 1, [0], {}), ("NM", 3, AB, 24, [(s + 2) % 24], {}), ("F1", 3, AB, 48, [(s + 30) % 48], {}),
                ("SNG", 3, AB, 2, [s % 2], {})]
        rnd = [(100, dict(maxlen=5, share=1, named=0, watch=1)), (120, dict(tmpl="share", named=0, watch=1, seed_off=5))]
    parsefam.run_plan(r, {"props": ["C07"], "families": fams, "random": rnd, "watch": True})
    r.rule = ("the harness keeps a reference to everything any parser (probe) has returned, with its rendering (token, value, children recursively, start, "
              "end, list membership) at the moment of return, re-renders ALL of them after every top-level call and at the end, and asks every memoised "
              "parser twice more at every position; a difference is a 'mutation' line, for which the specification has no action. Families biased toward "
              "sharing: groups of alternatives consumed by several appending parents, one memoised result used trimmed and untrimmed. Model side: "
              "CacheMonotoneMC (a stored context-free result is never replaced by a different one)")
    r.assumptions = ["values are observed through the exported Node API", "transformation is not enabled (Transform replaces children by design, C13)"]


def replay(r, case):
    return parsefam.replay_one(r, case, ["C07"])
