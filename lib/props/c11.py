"""C11 - global positions map one-to-one onto file, line and column (spec/FileSet.tla)."""
from .. import core, pure


def cfg(maxfiles, maxlen, export, names="MCNames", alphabet="97, 10, 13"):
    inv = "NoOverlap Injective RoundTrip UnknownOutside NextAbove RefinesAbs" + (" Export" if export else "")
    return ("CONSTANTS Names <- %s  Contents <- AllContents  MaxFiles = %d  MaxLen = %d  Alphabet = {%s}  DoExport = %s\n"
            "INIT Init\nNEXT Next\nINVARIANTS %s\nPROPERTIES Monotone RefinesAbsStep\nCHECK_DEADLOCK FALSE\n" % (
                names, maxfiles, maxlen, alphabet, str(export).upper(), inv))


def apalache_obligations(r):
    """unbounded part: the positional skeleton FileSetAbs has an inductive invariant that implies NoOverlap / Injective /
    NextAbove for files of any length (Apalache; the sequence of files is bounded by Gen(6) in the inductive step)"""
    import os
    import subprocess
    d = r._specdir()
    obs = [("Init => IndInv", ["--init=Init", "--inv=IndInv", "--length=0"]),
           ("IndInv /\\ Next => IndInv'", ["--init=IndInit", "--inv=IndInv", "--length=1"]),
           ("IndInv => NoOverlap /\\ NextAbove", ["--init=IndInit", "--inv=Safe", "--length=0"]),
           ("IndInv => Injective", ["--init=IndInit", "--inv=Injective", "--length=0"])]
    out = []
    for name, args in obs:
        od = os.path.join(r.scratch, "apa-%d" % len(out))
        try:
            p = subprocess.run(["apalache-mc", "check", "--out-dir=" + od] + args + ["FileSetAbsInd.tla"], cwd=d, stdout=subprocess.PIPE,
                               stderr=subprocess.STDOUT, text=True, timeout=600)
        except (subprocess.TimeoutExpired, OSError) as e:
            raise core.Inconclusive("apalache did not finish: %s" % e)
        ok = "EXITCODE: OK" in p.stdout
        out.append({"obligation": name, "discharged": ok})
        if not ok:
            raise core.Inconclusive("apalache could not discharge '%s':\n%s" % (name, p.stdout[-1500:]))
    return out


def run(r):
    th = r.tier == "thorough"
    res = []
    # exhaustive: all file sets of <= 2 files with raw content <= 3 bytes (thorough: + 3 files <= 2 bytes) over {a, LF, CR}
    plans = [(2, 3, "2x3")] + ([(3, 2, "3x2"), (2, 4, "2x4")] if th else [(3, 1, "3x1")])
    for (mf, ml, tag) in plans:
        res.append(pure.model_to_code(r, "FileSetMC", cfg(mf, ml, True), "fileset", tag))
    # columns are BYTE columns: one file over an alphabet with the two bytes of a multi-byte rune (0xC3 0xA9)
    res.append(pure.model_to_code(r, "FileSetMC", cfg(1, 5 if th else 4, True, alphabet="97, 10, 195, 169"), "fileset", "1xU"))
    r.extra["apalache"] = apalache_obligations(r)
    tr = pure.code_to_model(r, "fileset", "FileSetTrace", "FileSetTrace.cfg", 8 if th else 3,
                            dict(n=12 if th else 5, maxfiles=8, maxlen=300 if th else 120),
                            lambda x: x.get("ev") == "reset",
                            describe=lambda rows: [x for x in rows[:6]])
    r.extra["replay"] = [{k: v for k, v in x.items() if k not in ("mismatches", "samples")} for x in res]
    r.extra["random"] = tr
    r.exhaustive = True
    r.extra["exhaustive_scope"] = "all file sets listed in plans %s over the alphabet {a, LF, CR}; every position 0..next+1 and every file offset 0..len+1" % (plans,)
    r.rule = ("model->code: every file set of the bounded families, every global position 0..next+1 and every file offset queried on fresh real "
              "file sets in ascending and descending order (cold / warm line tables); code->model: random file sets of up to 8 files of up to "
              "300 bytes with queries interleaved with AddFile. distinct_nontrivial = file sets with more than one file")
    r.assumptions = ["bounded contents over {a, LF, CR} for the exhaustive part", "file names without ':'",
                     "the Apalache obligations cover the positional skeleton (FileSetAbs) for files of any length and up to 6 files in the inductive step; TLC checks on every explored state that FileSet refines it"]


def replay(r, case):
    return pure.replay_case(r, case, "FileSetTrace", "FileSetTrace.cfg", "fileset")
