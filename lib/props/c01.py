"""C01 - parse results equal the grammar's derivations (ParsleyMachine + Derivation + ParsleyTrace)."""
from .. import core, parsefam

AB = [97, 98]
ABCD = [97, 98, 99, 100]


def run(r):
    th = r.tier == "thorough"
    s = r.seed
    if th:
        fams = [("CAT", 4, AB, 1, [0], {}),
                ("F1", 3, AB, 16, list(range(16)), {}),
                ("F2", 3, AB, 8, list(range(8)), {}),
                ("NM", 3, AB, 8, list(range(8)), {}),
                ("F3", 3, AB, 32, [(s + i) % 32 for i in range(6)], {}),
                ("F1", 4, AB, 64, [(s + i) % 64 for i in range(4)], {"maxcalls": 900}),
                ("HID2", 4, ABCD, 8, [(s + i) % 8 for i in range(3)], {}),
                ("OPT", 3, AB, 1, [0], {}), ("HIDR", 6, AB, 1, [0], {}), ("OPTLR", 4, AB, 1, [0], {})]
        rnd = [(600, dict(maxlen=5, share=1, named=2, trees=1)), (300, dict(maxlen=6, share=1, named=0, monotone=1, seed_off=1)),
               (200, dict(maxlen=4, share=1, named=2, base=0, seed_off=2)),
               (500, dict(tmpl="share", named=0, trees=1, seed_off=5))]
    else:
        fams = [("CAT", 3, AB, 1, [0], {}),
                ("F1", 3, AB, 48, [s % 48], {}),
                ("F2", 3, AB, 24, [s % 24], {}),
                ("NM", 3, AB, 24, [s % 24], {}),
                ("HID2", 3, ABCD, 12, [s % 12], {}),
                ("OPT", 3, AB, 4, [s % 4], {}),
                ("HIDR", 5, AB, 3, [s % 3], {}),
                ("OPTLR", 3, AB, 2, [s % 2], {})]
        rnd = [(120, dict(maxlen=5, share=1, named=2, trees=1)), (100, dict(tmpl="share", named=0, trees=1, seed_off=5)), (60, dict(maxlen=4, share=1, named=2, trees=1, base=0, seed_off=9))]
    parsefam.run_plan(r, {"props": ["C01"], "families": fams, "random": rnd, "trees": True})
    # derivations that need deep left nesting: inputs of 70-130 positions on the left-recursive families (judged on end positions)
    r.extra["long_inputs"] = parsefam.long_inputs(r, ["C01"], [70, 130] if th else [70 + s % 7])
    r.rule = ("model->code: every (grammar, input) of the explored family slices, root + every memoised nonterminal at every position "
              "on the warm context, real end positions compared with Derivation!Ends and outcomes with ParsleyMachine; code->model: random "
              "admissible grammars (all combinators, sharing bias) validated event by event. distinct_nontrivial = exported cases in which "
              "the oracle derives something for at least one ask")
    r.assumptions = ["bounded grammar families and input lengths; runs cut by the step/result budget are not judged (counted in coverage)",
                     "completeness is decided on end positions; soundness on full trees (Derivation!ValidTree on every tree of every top-level call); equality of tree SETS is not checked",
                     "admissibility (stratification) is re-asserted by TLC for every judged grammar"]


def replay(r, case):
    return parsefam.replay_one(r, case, ["C01"])
