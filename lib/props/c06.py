"""C06 - the reported error is a furthest real failure, rendered as file:line:column."""
from .. import core, parsefam

ABN = [97, 98, 10]
AB = [97, 98]


def run(r):
    th = r.tier == "thorough"
    s = r.seed
    if th:
        fams = [("CAT", 3, ABN, 1, [0], {}), ("CAT", 3, ABN, 1, [0], {"nameall": True}),
                ("F1", 3, AB, 16, [(s + i) % 16 for i in range(4)], {"nameall": True}),
                ("F1", 3, ABN, 32, [(s + i) % 32 for i in range(3)], {}),
                ("NM", 3, AB, 8, [(s + i) % 8 for i in range(4)], {"nameall": True}),
                ("F2", 3, AB, 8, [(s + i) % 8 for i in range(2)], {"nameall": True}),
                ("F3", 3, AB, 32, [(s + i) % 32 for i in range(2)], {"nameall": True}),
                ("OPT", 3, AB, 1, [0], {"nameall": True}), ("OPT", 3, AB, 1, [0], {}),
                ("LINES", 5, ABN, 1, [0], {"nameall": True}), ("LINES", 4, ABN, 1, [0], {}),
                ("SEPC", 5, [97, 98, 120], 1, [0], {"nameall": True}), ("SEPC", 4, [97, 98, 120], 1, [0], {})]
        rnd = [(400, dict(maxlen=6, named=1, productive=1)), (300, dict(maxlen=6, named=0, productive=1, seed_off=1)),
               (200, dict(maxlen=5, named=2, productive=1, base=0, seed_off=2))]
    else:
        fams = [("CAT", 3, ABN, 2, [s % 2], {"nameall": True}), ("F1", 3, AB, 48, [(s + 21) % 48], {"nameall": True}),
                ("NM", 3, AB, 24, [(s + 9) % 24], {}),
                ("OPT", 3, AB, 2, [s % 2], {"nameall": True}), ("LINES", 4, ABN, 1, [0], {"nameall": True}),
                ("SEPC", 4, [97, 98, 120], 2, [s % 2], {"nameall": s % 4 < 2})]
        rnd = [(60, dict(maxlen=5, named=1, productive=1)), (60, dict(maxlen=5, named=0, productive=1, seed_off=1))]
    parsefam.run_plan(r, {"props": ["C06"], "families": fams, "random": rnd})
    r.rule = ("every failing Sentence parse of the explored (grammar, input) pairs, every Any/Choice named (equality clause) and unnamed (bound clause); "
              "the probes record which terminal / End / named parser failed where during the root parse and TLC checks that the reported text is "
              "'failed to parse the input: <expectation> at f:<line>:<col>' for one of those failures, at a position <= the furthest failed attempt "
              "(= when all are named); inputs with line feeds make line > 1 occur")
    r.assumptions = ["domain: productive grammars over single-byte terminals without trims (trims belong to C10)", "bounded families / input lengths"]


def replay(r, case):
    return parsefam.replay_one(r, case, ["C06"])
