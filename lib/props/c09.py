"""C09 - text reader primitives match a byte-level specification and stay in bounds (spec/Reader.tla)."""
from .. import core, pure


def cfg(maxlen, alphabet, bases, export):
    return ("CONSTANTS Contents <- AllContents  Bases = {%s}  Runes <- MCRunes  Strings <- MCStrings  Words <- MCWords\n"
            "  MaxLen = %d  Alphabet = {%s}  DoExport = %s\nINIT Init\nNEXT Next\nINVARIANTS InBounds MatchAdvances%s\nCHECK_DEADLOCK FALSE\n" % (
                ", ".join(map(str, bases)), maxlen, ", ".join(map(str, alphabet)), str(export).upper(), " Export" if export else ""))


ALPHA = [97, 95, 49, 32, 10, 195, 169, 12]   # a _ 1 SP LF C3 A9 FF


def run(r):
    th = r.tier == "thorough"
    # WSX: bytes that look like whitespace but are not the reader's (VT, CR alone, NEL / NBSP as C2 85 / C2 A0) next to the four that are
    WSX = [32, 9, 12, 11, 13, 97]   # (no LF next to CR: the model's content is the normalised one)
    plans = [(3, ALPHA, [1, 2, 9], "len3"), (3, WSX, [4], "wsx"), (3 if not th else 4, [194, 133, 160, 32, 97, 233], [1], "nbsp")] + ([(4, ALPHA, [1, 7], "len4"), (5, [97, 95, 32, 10, 195, 169], [3], "len5")] if th else [(4, [97, 95, 32, 195, 169], [5], "len4s")])
    res = []
    for (ml, al, bases, tag) in plans:
        res.append(pure.model_to_code(r, "ReaderMC", cfg(ml, al, bases, True), "reader", tag))
    tr = pure.code_to_model(r, "reader", "ReaderTrace", "ReaderTrace.cfg", 8 if th else 3,
                            dict(n=10 if th else 4, maxlen=200 if th else 60),
                            lambda x: x.get("ev") == "file", describe=lambda rows: rows[:3])
    r.extra["replay"] = [{k: v for k, v in x.items() if k not in ("mismatches", "samples")} for x in res]
    r.extra["random"] = tr
    r.exhaustive = True
    r.extra["exhaustive_scope"] = "every content of the listed (maxlen, alphabet) x bases x every position; argument sets of ReaderMC"
    r.rule = ("model->code: every (content, base, position) of the bounded families with the expected result of every primitive for every argument "
              "of the small argument sets, replayed on a real text.Reader whose file is placed at that base through a real file set; code->model: "
              "random contents (any bytes, CRLF, 2- and 3-byte runes, invalid UTF-8) at random bases, every primitive at every position, validated by "
              "ReaderTrace; the regexp primitives relative to Go's regexp evaluated by the harness. distinct_nontrivial = cases with non-empty content")
    r.assumptions = ["the regexp engine itself is delegated to Go's regexp package (ReadRegexp is specified relative to it)",
                     "a panic of a primitive is recorded as an observation the specification has no action for"]


def replay(r, case):
    return pure.replay_case(r, case, "ReaderTrace", "ReaderTrace.cfg", "reader")
