"""C16 - the example JSON parser agrees with encoding/json on the supported subset (spec/JsonDoc.tla)."""
import json

from .. import core


def judge(r, cases, tag):
    """cases rendered and classified by the specification -> real observations -> JsonDocTrace"""
    inp = r.path("json-cases-%s.ndjson" % tag)
    core.write_ndjson(inp, cases)
    tr = r.path("json-obs-%s.ndjson" % tag)
    rc, so, se = r.pvh("jsondoc", "observe", **{"in": inp, "out": tr})
    rows = core.read_ndjson(tr)
    cur = rows
    path = tr
    viol = 0
    while cur and viol <= 8:
        o = r.tlc("JsonDocTrace", cfg="JsonDocTrace.cfg", workers=1, env={"TRACE": path}, timeout=1500)
        if o.ok:
            r.traces += len(cur)
            break
        if not o.rejected_line:
            raise core.Inconclusive("JsonDocTrace did not finish: %r\n%s" % (o, core.tail(o.out_path, 20)))
        with open(o.out_path, errors="replace") as f:
            out = f.read()
        if "HARNESS rendering differs" in out:
            raise core.Inconclusive("the harness' document differs from the specification's rendering at line %d" % o.rejected_line)
        k = min(o.rejected_line, len(cur)) - 1
        row = cur[k]
        r.violation({"kind": "jsondoc", "line": {kk: row[kk] for kk in ("v", "pat", "cor", "text")}, "observed": {kk: row[kk] for kk in row if kk not in ("v", "pat", "cor", "text")}},
                    "example JSON parser on %r: %s" % (row["text"][:120], {kk: row[kk] for kk in ("pok", "perr", "jok", "agree", "skel", "panic")}))
        viol += 1
        cur = cur[k + 1:]
        path = r.path("json-rest-%d.ndjson" % r._k)
        core.write_ndjson(path, cur)
    r.evaluations += len(rows)
    return rows


def run(r):
    th = r.tier == "thorough"
    s = r.seed
    classes = {}
    # (1) model -> code: the bounded document family with every whitespace pattern and every corruption
    ns = 4 if th else 16
    for sl in ([-1, 0, 1, 2, 3] if th else [-1, s % 16]):
        # slice -1: every scalar of the table alone and inside an array (all classes), every pattern, every corruption
        g = r.tlc("JsonDocMC", cfg_text="CONSTANTS MaxMembers = %d NSlices = %d Slice = %d OnlyScalars = %s\nINIT Init\nNEXT Next\nINVARIANTS Export\nCHECK_DEADLOCK FALSE\n" % (
            3 if th else 2, 1 if sl < 0 else ns, max(sl, 0), "TRUE" if sl < 0 else "FALSE"), workers=core.NCPU, timeout=1500)
        if not g.ok or not g.prints:
            raise core.Inconclusive("JsonDocMC failed: %r" % g)
        seen, cases = set(), []
        for c in g.prints:
            k = json.dumps([c["v"], c["pat"], c["cor"]])
            if k not in seen:
                seen.add(k)
                cases.append(c)
        for c in cases:
            classes[c["class"]] = classes.get(c["class"], 0) + 1
        judge(r, cases, "mc%d" % sl)
        if len(r.samples) < 3:
            r.samples.append({"direction": "model->code", "document": cases[len(cases) // 2]["text"], "class": cases[len(cases) // 2]["class"]})
    # (2) random documents up to depth 6: proposed by the harness, rendered and classified by the specification
    for c in range(4 if th else 1):
        ab = r.path("json-abs-%d.ndjson" % c)
        r.pvh("jsondoc", "abstract", seed=r.seed * 17 + c, n=300 if th else 150, out=ab)
        g = r.tlc("JsonDocRender", cfg="JsonDocRender.cfg", workers=1, env={"TRACE": ab}, timeout=1500)
        if not g.ok or not g.prints:
            raise core.Inconclusive("JsonDocRender failed: %r\n%s" % (g, core.tail(g.out_path, 20)))
        seen, cases = set(), []
        for x in g.prints:
            k = json.dumps([x["v"], x["pat"], x["cor"]])
            if k not in seen:
                seen.add(k)
                cases.append(x)
        for x in cases:
            classes[x["class"]] = classes.get(x["class"], 0) + 1
        rows = judge(r, cases, "rnd%d" % c)
        if c == 0 and rows:
            big = max(rows, key=lambda x: len(x["text"]))
            r.samples.append({"direction": "code->model (random document)", "bytes": len(big["text"]), "document": big["text"][:200], "observed": {k: big[k] for k in ("pok", "jok", "agree")}})
    r.nontrivial = classes.get("supported", 0) + classes.get("corrupt", 0)
    r.extra["documents_by_class"] = classes
    r.rule = ("documents are abstract values rendered by JsonDoc.tla with a whitespace choice per gap and an optional corruption (truncation inside a bracketed "
              "document, trailing input, removal of ':' or of the closing bracket); the specification classifies them (supported / unsupported-but-JSON / "
              "non-JSON the grammar takes / corrupt) and JsonDocTrace requires per class: supported => both accept, values agree, structure as the abstract "
              "value; corrupt (and rejected by encoding/json) => parsley error, no value; always => no panic, value xor error. distinct_nontrivial = supported + corrupt documents")
    r.assumptions = ["scalar equality is encoding/json's (UseNumber; int64 / float64 comparison), by the property's definition",
                     "a corruption that happens to produce valid JSON again carries no obligation beyond totality"]


def replay(r, case):
    inp = r.path("one.ndjson")
    core.write_ndjson(inp, [dict(case["line"], **{"class": "", "skel": ""})])
    tr = r.path("one-obs.ndjson")
    r.pvh("jsondoc", "observe", **{"in": inp, "out": tr})
    o = r.tlc("JsonDocTrace", cfg="JsonDocTrace.cfg", workers=1, env={"TRACE": tr}, timeout=600)
    if o.ok:
        return None
    if o.rejected_line:
        return "requirement of the document's class violated"
    raise core.Inconclusive("replay did not finish: %r" % o)
