"""C04 - Parse yields a node xor an error; Sentence means whole input (ParsleyMachine!ApiOutcome, ParsleyTrace!C04onApi)."""
from .. import core, parsefam

AB = [97, 98]


def run(r):
    th = r.tier == "thorough"
    s = r.seed
    if th:
        fams = [("CAT", 4, AB, 1, [0], {}), ("CAT", 3, AB, 1, [0], {"nameall": True}),
                ("F1", 3, AB, 16, [(s + i) % 16 for i in range(6)], {}),
                ("NM", 3, AB, 8, [(s + i) % 8 for i in range(4)], {}),
                ("F2", 3, AB, 8, [(s + i) % 8 for i in range(2)], {"nameall": True}),
                ("HID2", 4, [97, 98, 99, 100], 8, [(s + i) % 8 for i in range(2)], {}),
                ("F3", 3, AB, 32, [(s + i) % 32 for i in range(4)], {}), ("SNG", 4, AB, 1, [0], {}), ("TRNL", 5, [97, 98, 32], 1, [0], {})]
        rnd = [(400, dict(maxlen=5, named=2)), (300, dict(maxlen=5, named=0, seed_off=1)), (200, dict(maxlen=4, named=1, base=0, seed_off=2))]
    else:
        fams = [("CAT", 3, AB, 1, [0], {}), ("F1", 3, AB, 48, [(s + 13) % 48], {}), ("NM", 3, AB, 24, [(s + 5) % 24], {"nameall": True}),
                ("HID2", 3, [97, 98, 99, 100], 12, [(s + 5) % 12], {}), ("SNG", 3, AB, 2, [(s + 1) % 2], {}), ("OPTLR", 3, AB, 2, [(s + 1) % 2], {}), ("TRNL", 4, [97, 98, 32], 1, [0], {})]
        rnd = [(100, dict(maxlen=5, named=2)), (60, dict(maxlen=4, named=2, base=0, seed_off=3))]
    parsefam.run_plan(r, {"props": ["C04"], "families": fams, "random": rnd})
    r.extra["long_inputs"] = parsefam.long_inputs(r, ["C04"], [70, 130] if r.tier == "thorough" else [66 + r.seed % 9])
    r.rule = ("for every explored (grammar, input): parsley.Parse and parsley.Evaluate (an interpreter bound to every sequence) on fresh contexts; "
              "TLC judges node xor error, value xor error, no panic, success <=> Derivation derives the whole input, span = whole file; "
              "named and unnamed alternatives, matching and non-matching inputs, unproductive grammars included")
    r.assumptions = ["bounded families / input lengths", "Sentence <=> whole-input is judged only for admissible grammars (a least-fixpoint meaning exists)"]


def replay(r, case):
    return parsefam.replay_one(r, case, ["C04"])
