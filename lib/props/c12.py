"""C12 - parsing is invariant under the file's placement in a file set (C12Trace; ParsleyMC at two bases)."""
import json

from .. import core, pure, parsefam

AB = [97, 98]


def model_obs(ask):
    return {"ok": bool(ask["res"]) and not ask["err"], "trees": [[x[0], x[1], x[2], "", []] for x in ask["res"]],
            "err": ask["err"], "text": "", "val": "", "calls": ask["calls"]}


def run(r):
    th = r.tier == "thorough"
    s = r.seed
    # (1) model: ParsleyMachine at base 1 and at base 6 on the same family slice; the relation is judged by TLC on the paired exports
    fams = [("CAT", 3, AB, 2, s % 2), ("HID", 3, [97, 98, 120], 2, s % 2)] + ([("F1", 3, AB, 16, s % 16), ("HID2", 3, [97, 98, 99, 100], 12, s % 12)] if th else [])
    lines = []
    for (fam, ml, al, ns, sl) in fams:
        by = {}
        for base in (1, 6):
            o, cases, cut = parsefam.explore(r, fam, ml, al, nslices=ns, slice_=sl, base=base)
            if not o.ok:
                raise core.Inconclusive("ParsleyMC failed at base %d: %r" % (base, o))
            for c in cases:
                by.setdefault(json.dumps([c["G"], c["w"]]), {})[base] = c
            if base == 6:
                # the real code at base 6 against the machine at base 6 (conformance), incl. trace validation
                parsefam.replay_cases(r, cases, "%s-b6" % fam, [])
        for k, v in by.items():
            if 1 in v and 6 in v:
                for a1, a6 in zip(v[1]["asks"], v[6]["asks"]):
                    lines.append({"wl": "model", "d": 5, "a": model_obs(a1), "b": model_obs(a6)})
    mp = r.path("c12-model.ndjson")
    core.write_ndjson(mp, lines)
    o = r.tlc("C12Trace", cfg="C12Trace.cfg", workers=1, env={"TRACE": mp}, timeout=1500)
    if not o.ok:
        raise core.Inconclusive("the model itself is not shift-equivariant?! %r line %s: %s" % (o, o.rejected_line, json.dumps(lines[(o.rejected_line or 1) - 1])[:500]))
    r.extra["model_pairs_judged"] = len(lines)
    # (2) code: workloads (JSON example, arithmetic, trimmed token sequences, every literal parser, left-recursive grammars)
    rnd = pure.code_to_model(r, "place", "C12Trace", "C12Trace.cfg", 8 if th else 3, dict(n=400 if th else 150), lambda x: True,
                             describe=lambda rows: {"wl": rows[0]["wl"], "d": rows[0]["d"], "content": "".join(chr(c) for c in rows[0]["content"]), "a": rows[0]["a"]})
    r.extra["random"] = rnd
    r.nontrivial += rnd["accepted_cases"]
    r.rule = ("model: ParsleyMachine explored at base 1 and base 6 over family slices, every top-level outcome paired and judged by C12Trace (positions + 5, "
              "same call count); code: the example JSON parser (black box), the arithmetic grammar, trimmed token sequences, each of the eleven literal "
              "parsers and random left-recursive grammars, each input parsed alone and after 1-3 arbitrary preceding files with the same parser object; "
              "C12Trace requires every node / error position shifted by exactly the base difference and trees, values, messages, line:column and call "
              "counts unchanged")
    r.assumptions = ["preceding files up to 40 bytes each (bases up to ~120)", "the machine comparison covers shallow results; full trees are compared on the real runs"]


def replay(r, case):
    return pure.replay_case(r, case, "C12Trace", "C12Trace.cfg", "place")
