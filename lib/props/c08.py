"""C08 - built-in literal parsers are total and agree with Go's conversions (spec/Literals.tla)."""
from .. import core, pure

# class-complete alphabets per parser (every branch of every lexical rule has a representative)
ALPHA = {
    "integer": [48, 49, 55, 57, 97, 102, 120, 46, 43, 45],           # 0 1 7 9 a f x . + -
    "float": [48, 49, 57, 46, 101, 69, 43, 45],                       # 0 1 9 . e E + -
    "string": [34, 92, 110, 113, 117, 48, 97, 10, 195, 169, 255],     # " \ n q u 0 a LF C3 A9 FF
    "stringbq": [34, 96, 92, 97, 10],
    "char": [39, 92, 110, 120, 52, 97, 195, 169],                     # ' \ n x 4 a C3 A9
    "bool": [97, 98, 95, 32], "nil": [97, 98, 95, 32], "word": [97, 98, 49, 32], "op": [97, 98],
    "rune": [195, 169, 97, 233],     # C3 A9 = the encoding of the rune; E9 = its code point as a single (invalid) byte
    "duration": [49, 46, 104, 109, 115, 110, 117, 194, 181, 45],      # 1 . h m s n u C2 B5 -
}


def cfg(parser, maxlen):
    return ('CONSTANTS Contents <- Empty Bases <- Empty Runes <- Empty Strings <- Empty Words <- Empty\n'
            '  Parser = "%s" Alphabet = {%s} MaxLen = %d\nINIT InitL\nNEXT NextL\nINVARIANTS SpecTotal Export\nCHECK_DEADLOCK FALSE\n' % (
                parser, ", ".join(map(str, ALPHA[parser])), maxlen))


def run(r):
    th = r.tier == "thorough"
    res = []
    for p in sorted(ALPHA):
        big = len(ALPHA[p]) >= 8
        ml = (5 if not big else 4) if th else (4 if not big else 3)
        if p in ("string", "char") and th:
            ml = 4
        res.append(pure.model_to_code(r, "LiteralsMC", cfg(p, ml), "literals", "%s-%d" % (p, ml)))
    rnd = pure.code_to_model(r, "literals", "LiteralsTrace", "LiteralsTrace.cfg", 8 if th else 3, dict(n=2400 if th else 800), lambda x: True,
                             describe=lambda rows: {k: rows[0][k] for k in ("p", "off", "k", "e", "nf")})
    r.extra["replay"] = [{k: v for k, v in x.items() if k not in ("mismatches", "samples")} for x in res]
    r.extra["random"] = rnd
    r.exhaustive = True
    r.extra["exhaustive_scope"] = "per parser: all byte strings up to length 3-5 over its class-complete alphabet x every start offset"
    r.rule = ("model->code: for each of the eleven parsers every byte string of the bounded family and every offset with the outcome Literals.tla prescribes "
              "(node: start, end of the longest literal, decoded string/char/bool value; error: position and not-found-ness); code->model: random and "
              "near-literal byte strings (digit runs around 2^63, unterminated / ill-escaped strings, truncated multi-byte runes, invalid UTF-8) at random "
              "offsets judged by LiteralsTrace (totality everywhere, exact outcome on the well-formed domain). distinct_nontrivial = cases where a node is expected")
    r.assumptions = ["numeric and duration VALUES and range decisions are delegated to strconv / time, the regexp parser to Go's regexp (the harness computes them "
                     "from the consumed bytes independently of parsley)",
                     "a raw line break inside a double-quoted string after an escape or non-ASCII byte is outside the well-formed domain (totality only)"]


def replay(r, case):
    return pure.replay_case(r, case, "LiteralsTrace", "LiteralsTrace.cfg", "literals")
