"""C13 - tree passes reach every node once, in the documented order (spec/TreePass.tla)."""
from .. import core, pure


def cfg(maxnodes, labelled, lists, stops):
    return ("CONSTANTS Trees <- AllTrees Lists <- %s StopKs <- %s MaxNodes = %d Labelled = %s DoExport = TRUE\n"
            "INIT Init\nNEXT Next\nINVARIANTS PrefixOfPostOrder OnceEach EndState ChildrenFirst Export\nCHECK_DEADLOCK FALSE\n" % (
                lists, stops, maxnodes, str(labelled).upper()))


def run(r):
    th = r.tier == "thorough"
    res = []
    # Walk machine: every shape, with / without a NodeList root, every stop point
    res.append(pure.model_to_code(r, "TreePassMC", cfg(6 if th else 5, False, "Bools", "AllStops"), "treepass", "shapes"))
    # StaticCheck / Transform / Evaluate: every assignment of node kinds and interpreter capabilities, every injected failure
    res.append(pure.model_to_code(r, "TreePassMC", cfg(4 if th else 3, True, "NoList", "NoStop"), "treepass", "labelled"))
    rnd = pure.code_to_model(r, "treepass", "TreePassTrace", "TreePassTrace.cfg", 8 if th else 2,
                             dict(n=40 if th else 30, maxnodes=140 if th else 80), lambda x: True,
                             describe=lambda rows: {k: rows[0][k] for k in ("list", "stopK", "failAt", "walk")})
    r.extra["replay"] = [{k: v for k, v in x.items() if k not in ("mismatches", "samples")} for x in res]
    r.extra["random"] = rnd
    r.exhaustive = True
    r.extra["exhaustive_scope"] = "all tree shapes up to %d nodes x list root x every stop point (Walk); all kind/capability labellings up to %d nodes x every failing node (other passes)" % (6 if th else 5, 4 if th else 3)
    r.rule = ("model->code: the Walk machine over every tree shape (with and without an alternative list at the root, stop at every visit) and the "
              "recursive definitions of StaticCheck / Transform / Evaluate over every labelling (terminal, Empty, childless and inner non-terminals with "
              "plain / checker / transformer / both interpreters, failure injected at every node) exported by TLC and replayed on real ast nodes with "
              "recording interpreters; code->model: random trees up to 140 nodes judged by TreePassTrace. distinct_nontrivial = trees with more than 2 nodes")
    r.assumptions = ["Transform / Evaluate are exercised on single trees (a NodeList root is not Transformable and has no value in the code)",
                     "checker schemas are strings built from the children's recorded schemas, so 'children final' is observable"]


def replay(r, case):
    return pure.replay_case(r, case, "TreePassTrace", "TreePassTrace.cfg", "treepass")
