"""C10 - whitespace modes are enforced exactly and permitted whitespace is transparent (Trim.tla, TrimMC, TrimTrace)."""
import json

from .. import core, pure, parsefam


def cfg(ntok, gaplen, alphabet, nslices, slice_, base=1, export=True):
    return ("CONSTANTS PinnedSeqReset = FALSE PinnedAnyDrop = FALSE NTok = %d GapLen = %d GapAlphabet = {%s} Base = %d NSlices = %d Slice = %d DoExport = %s\n"
            "INIT Init\nNEXT Next\nINVARIANTS Agrees TransparentInv%s\nCHECK_DEADLOCK FALSE\n" % (
                ntok, gaplen, ", ".join(map(str, alphabet)), base, nslices, slice_, str(export).upper(), " Export" if export else ""))


def run(r):
    th = r.tier == "thorough"
    s = r.seed
    # (tokens, max gap length, gap alphabet, slices)
    plans = [(1, 2, [32, 10, 12], 1, [0], 1), (2, 1, [32, 10, 12], 4, [s % 4], 3)]
    if th:
        plans = [(1, 3, [32, 9, 10, 12], 3, [0, 1, 2], 1), (2, 1, [32, 10, 12], 1, [0], 1), (2, 2, [32, 10], 48, [(s + i) % 48 for i in range(3)], 7),
                 (3, 1, [32, 10], 96, [(s + i) % 96 for i in range(2)], 1)]    # (twice the slices since every case exists with and without the optional continuation)
    stats = []
    for (ntok, gl, al, ns, sls, base) in plans:
        for sl in sls:
            tag = "t%d-g%d-%d" % (ntok, gl, sl)
            tr = r.path("ptrace-%s.ndjson" % tag)
            res = pure.model_to_code(r, "TrimMC", cfg(ntok, gl, al, ns, sl, base=base), "trim", tag, timeout=2700 if th else 1500, extra_kw={"trace": tr},
                                      sort_key=lambda c: (json.dumps([c["lm"], c["rm"]]), -sum(len(g) for g in c["gaps"]) if hash(json.dumps(c["lm"])) % 2 else sum(len(g) for g in c["gaps"]), json.dumps(c["gaps"])))
            # the probe traces of the same runs against the trim actions of ParsleyMachine (conformance; a rejection is drift)
            v = parsefam.validate_traces(r, parsefam.split_trace_file(r, tr, 8), [])
            stats.append({"tokens": ntok, "gaplen": gl, "slice": "%d/%d" % (sl, ns), "cases": res["cases"], "states": res["states"], "machine_traces": v})
    # trims in the mode that allows any run over operands with SEVERAL alternatives of different lengths: every alternative's end
    # moves behind the run that follows it (judged through Derivation!Ends: the sentence succeeds iff the whole input is derived)
    parsefam.run_plan(r, {"props": ["C04"], "families": [("TRNL", 5 if th else 4, [97, 98, 32], 1, [0], {})], "random": []})
    rnd = pure.code_to_model(r, "trim", "TrimTrace", "TrimTrace.cfg", 8 if th else 2, dict(n=400 if th else 150, maxtok=12),
                             lambda x: True, describe=lambda rows: rows[0], group_key=lambda x: json.dumps([x["toks"], x["lm"], x["rm"]]))
    r.extra["families"] = stats
    r.extra["random"] = rnd
    r.exhaustive = all(x["slice"].endswith("/1") for x in stats)
    r.rule = ("model->code: every (gap strings, left/right mode assignment) of the bounded token-sequence families with the outcome Trim.tla "
              "prescribes (accept/reject, error kind and exact position, start/end/value of every token, text of parsley.Parse's error); "
              "code->model: random sequences of up to 12 tokens with runs incl. CRLF at random bases, judged by TrimTrace; the probe traces "
              "of the replayed cases are validated against the LeftTrim/RightTrim actions of ParsleyMachine. distinct_nontrivial = cases with whitespace")
    r.assumptions = ["domain: token sequences that match the grammar, only whitespace varies (the only possible failure is a whitespace error)",
                     "a right trim consumes the whole run, the left trim of the next token then sees an empty run (sequential composition)"]


def replay(r, case):
    return pure.replay_case(r, case, "TrimTrace", "TrimTrace.cfg", "trim")
