"""C14 - a parser graph can be shared by concurrent parses (Concurrent.tla, C14Trace; Go race detector as the
instrument that turns memory accesses of real concurrent runs into an observable)."""
import json
import os
import re
import subprocess

from .. import core


def extract_shared(r):
    env = dict(os.environ)
    env.update(core.GOENV)
    p = subprocess.run(["go", "run", ".", core.REPO], cwd=os.path.join(core.ROOT, "tools", "sharedvars"), env=env,
                       stdout=subprocess.PIPE, stderr=subprocess.PIPE, text=True, timeout=300)
    if p.returncode != 0:
        raise core.Inconclusive("static extraction failed: " + p.stderr[-1500:])
    return json.loads(p.stdout)


def run(r):
    th = r.tier == "thorough"
    # (1) static extraction of the shared locations /repo's current sources write, and the interleaving model over them
    acc = extract_shared(r)
    r.extra["shared_locations_written"] = acc
    d = r._specdir()
    recs = ", ".join('[loc |-> "%s.%s", fn |-> "%s", mode |-> "%s"]' % (a["pkg"], a["var"], a["fn"], a["mode"]) for a in acc) or ""
    with open(os.path.join(d, "SharedLocs.tla"), "w") as f:
        f.write("---- MODULE SharedLocs ----\nEXTENDS Concurrent\nExtracted == {%s}\n====\n" % recs)
    cfg = "CONSTANTS N = %d MaxSteps = %d Accesses <- Extracted\nINIT Init\nNEXT Next\nINVARIANTS NoConflict\nCHECK_DEADLOCK FALSE\n" % (3 if th else 2, 6 if th else 4)
    o = r.tlc("SharedLocs", cfg_text=cfg, workers=4, timeout=600)
    suspects = [a for a in acc if a["mode"] in ("w", "addr")]
    if not o.ok and not (o.error and "NoConflict" in o.error):
        raise core.Inconclusive("Concurrent model run failed: %r" % o)
    r.extra["model_NoConflict_holds"] = o.ok
    r.extra["static_suspects"] = suspects        # informational: a suspect becomes a violation only if a real run confirms it
    # (2) free-running real code under the race detector: 8 goroutines on shared parser graphs + concurrent construction
    files = []
    races = []
    for c in range(3 if th else 1):
        out = r.path("c14-free-%d.ndjson" % c)
        rc, so, se = r.pvh("conc", "free", race=True, check=False, timeout=1500, env={"GORACE": "halt_on_error=0"},
                           out=out, goroutines=8, iters=120 if th else 40, seed=r.seed + c)
        reps = re.findall(r"WARNING: DATA RACE\n(.*?)\n==================", se, re.S)
        for rep in reps[:5]:
            races.append(rep[:1500])
        if rc != 0 and not reps:
            raise core.Inconclusive("concurrent run failed rc=%d: %s" % (rc, se[-1500:]))
        files.append(out)
    # (3) gated real code: deterministic random schedules at probe granularity (functional interference through shared state)
    for c in range(4 if th else 1):
        out = r.path("c14-gated-%d.ndjson" % c)
        r.pvh("conc", "gated", out=out, n=150 if th else 50, seed=r.seed * 13 + c)
        files.append(out)
    rows = []
    for f in files:
        rows += core.read_ndjson(f)
    for rep in races:
        rows.append({"ev": "race", "report": rep})
    allp = r.path("c14-all.ndjson")
    core.write_ndjson(allp, rows)
    cur, path, viol = rows, allp, 0
    while cur and viol <= 6:
        j = r.tlc("C14Trace", cfg="C14Trace.cfg", workers=1, env={"TRACE": path}, timeout=900)
        if j.ok:
            r.traces += sum(1 for x in cur if x["ev"] == "run")
            break
        if not j.rejected_line:
            raise core.Inconclusive("C14Trace did not finish: %r" % j)
        k = min(j.rejected_line, len(cur)) - 1
        row = cur[k]
        if row["ev"] == "race":
            m = re.search(r"(github.com/opsidian/parsley/[^\s(]+)\(\)", row["report"])
            site = m.group(1) if m else "unknown"
            r.violation({"kind": "race", "report": row["report"], "key": "race-" + re.sub(r"\W+", "_", site)},
                        "the Go race detector reports a data race between concurrent parses at %s" % site)
        else:
            r.violation({"kind": "soloequal", "run": {kk: row[kk] for kk in ("g", "wl", "mode", "sched")},
                         "solo": row["solo"][:40], "conc": row["conc"][:40]},
                        "goroutine %s (%s, %s) observed something else than when it runs alone" % (row["g"], row["wl"], row["mode"]))
        viol += 1
        cur = cur[k + 1:]
        path = r.path("c14-rest-%d.ndjson" % r._k)
        core.write_ndjson(path, cur)
    r.evaluations += sum(1 for x in rows if x["ev"] == "run")
    r.nontrivial += sum(1 for x in rows if x["ev"] == "run" and x["mode"] == "gated")
    g0 = next((x for x in rows if x.get("mode") == "gated"), None)
    if g0:
        r.samples.append({"mode": "gated", "input": g0["wl"], "schedule": g0["sched"][:20], "events": len(g0["conc"])})
    r.samples.append({"mode": "free", "goroutines": 8, "workloads": ["json", "arith", "leftrec"], "race_reports": len(races)})
    r.rule = ("static: package-level variables and closure-captured variables that /repo's current sources write (tools/sharedvars) feed the interleaving "
              "model Concurrent.tla (NoConflict); dynamic, free-running: 8 goroutines x success and failure inputs on shared parser graphs (example JSON parser, "
              "arithmetic, a left-recursive grammar with trims) plus concurrent construction, built with -race; dynamic, gated: 2-3 parses of one shared probed "
              "left-recursive grammar under random schedules at probe granularity; C14Trace requires every goroutine's observations to equal its solo "
              "observations and has no action for a race report. distinct_nontrivial = gated runs")
    r.assumptions = ["memory-level race detection is delegated to the Go race detector", "a static suspect not confirmed by a real run is evidence, not a violation",
                     "gated schedules are random (seeded), not exhaustive"]
    r.exhaustive = False


def replay(r, case):
    rc, so, se = r.pvh("conc", "free", race=True, check=False, timeout=1500, env={"GORACE": "halt_on_error=0"}, out=r.path("re.ndjson"), goroutines=8, iters=60)
    if "WARNING: DATA RACE" in se:
        return "the race detector still reports a data race"
    rows = core.read_ndjson(r.path("re.ndjson"))
    r.pvh("conc", "gated", out=r.path("reg.ndjson"), n=80, seed=r.seed)
    rows += core.read_ndjson(r.path("reg.ndjson"))
    core.write_ndjson(r.path("re-all.ndjson"), rows)
    j = r.tlc("C14Trace", cfg="C14Trace.cfg", workers=1, env={"TRACE": r.path("re-all.ndjson")}, timeout=600)
    if j.ok:
        return None
    return "a concurrent run still differs from its solo run"
