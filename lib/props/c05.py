"""C05 - left-recursive expression grammars evaluate like a reference evaluator (spec/Arith.tla)."""
from .. import core, pure


def cfg(maxtok, nslices, slice_):
    return "CONSTANTS MaxTok = %d NSlices = %d Slice = %d\nINIT Init\nNEXT Next\nINVARIANTS Consistent Export\nCHECK_DEADLOCK FALSE\n" % (maxtok, nslices, slice_)


def run(r):
    th = r.tier == "thorough"
    s = r.seed
    plans = [(3, 1, [0]), (4, 8, [s % 8])] if not th else [(4, 1, [0]), (5, 36, [(s + i) % 36 for i in range(3)])]
    res = []
    for (mt, ns, sls) in plans:
        for sl in sls:
            res.append(pure.model_to_code(r, "ArithMC", cfg(mt, ns, sl), "arith", "t%d-%d" % (mt, sl)))
    rnd = pure.code_to_model(r, "arith", "ArithTrace", "ArithTrace.cfg", 8 if th else 3, dict(n=400 if th else 100, maxdepth=12 if th else 9),
                             lambda x: True, describe=lambda rows: {"text": "".join(chr(c) for c in rows[0]["text"]), "ok": rows[0]["ok"], "val": rows[0]["val"], "err": rows[0]["err"]})
    r.extra["replay"] = [{k: v for k, v in x.items() if k not in ("mismatches", "samples")} for x in res]
    r.extra["random"] = rnd
    r.exhaustive = all(ns == 1 for (_, ns, _) in plans)
    r.rule = ("model->code: every token sequence up to 3-5 tokens over {0,1,2,3,7,12,+,-,*,/,(,)} (well- and ill-formed) rendered with five whitespace patterns, "
              "with the outcome of the byte-level reference evaluator (value / division by zero at line:col of the operator / ill-formed); code->model: random "
              "expressions up to depth 12 / ~400 bytes, left- and right-heavy, with whitespace and newlines in every gap and token-level ill-formed mutations, "
              "evaluated by parsley.Evaluate on the real memoised left-recursive grammar (built once, reused) and judged by ArithTrace. "
              "distinct_nontrivial = well-formed cases")
    r.assumptions = ["intermediate values are kept inside +-10^6 (TLC integers are 32-bit)", "literals with a leading zero (octal / hex in Go's syntax) are outside the modelled domain"]


def replay(r, case):
    return pure.replay_case(r, case, "ArithTrace", "ArithTrace.cfg", "arith")
