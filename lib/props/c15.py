"""C15 - IntSet / IntMap are persistent (spec/IntData.tla)."""
from .. import core

ASSUME = [
    "TLC explores the abstract IntData histories exhaustively only within the stated constants",
    "values are observed through the exported API (Each, Len, Keys, Get); capacity/aliasing is visible only "
    "through its effect on a value obtained earlier",
]


def mc_cfg(dom, maxargs, maxops, view=True, export=False, prefix="NoPrefix", allownew=True):
    # (the domain is -1 .. dom-2: ints, not naturals)
    return ("CONSTANTS D <- %s  MaxArgs = %d  MaxCnt = 2  MaxOps = %d  Prefix <- %s  AllowNew = %s\nINIT Init\nNEXT Next\n%s%s\nCHECK_DEADLOCK FALSE\n" % (
        "DomOf%d" % dom, maxargs, maxops, prefix, str(allownew).upper(),
        "VIEW View\nINVARIANTS TypeOK EachOrdered Algebra\nPROPERTY Persistent" if not export else "INVARIANTS Export",
        ""))


def judge_replay(r, rep, origin):
    res = core.json.load(open(rep))
    r.evaluations += res["cases"]
    r.extra["replayed_ops"] = r.extra.get("replayed_ops", 0) + res["ops"]
    r.extra["replay_comparisons"] = r.extra.get("replay_comparisons", 0) + res["comparisons"]
    for s in res.get("samples") or []:
        if len(r.samples) < 3:
            r.samples.append({"direction": "model->code", "case": s})
    for m in res["mismatches"]:
        r.violation({"kind": "history", "history": m["history"], "value_index": m["value_index"],
                     "got": m["got"], "want": m["want"], "origin": origin},
                    "value #%d reads %s after operation %d, the model says %s" % (
                        m["value_index"], m["got"].get("o"), m["after_op"], m["want"].get("o")))
    return res


def run(r):
    thorough = r.tier == "thorough"
    r.assumptions = ASSUME
    # (1) design level: exhaustive exploration of histories, invariants + append-only action property
    mc = r.tlc_must_pass("IntDataMC", cfg_text=mc_cfg(3, 3, 4 if thorough else 3), workers=core.NCPU, timeout=1500)
    # (1b) implementation level: IntSet as slice headers over shared backing arrays (data/intset.go statement by statement);
    # Persistent must hold for the repaired Insert, and the pinned aliasing Insert (defect D6) must violate it (control)
    icfg = ("CONSTANTS D = {1, 2, 3} MaxArgs = 3 MaxOps = %d PinnedInsertAlias = %s\nINIT Init\nNEXT Next\nVIEW View\n"
            "INVARIANTS Persistent Sorted InCap\nPROPERTY AbstractStep\nCHECK_DEADLOCK FALSE\n")
    r.tlc_must_pass("IntDataImpl", cfg_text=icfg % (4 if thorough else 3, "FALSE"), workers=core.NCPU, timeout=1500)
    ctl = r.tlc("IntDataImpl", cfg_text=icfg % (3, "TRUE"), workers=core.NCPU, timeout=900, count=False)
    r.extra["control_pinned_insert_alias_violates_Persistent"] = bool(ctl.error and "Persistent" in ctl.error)
    if not r.extra["control_pinned_insert_alias_violates_Persistent"]:
        raise core.Inconclusive("negative control failed: the aliasing Insert does not violate Persistent in IntDataImpl (%r)" % ctl)
    # (2) model -> code: every history of the bounded family, with the model's expected observations
    # plain histories, and continuations of a prefix of values with shared history / spare capacity (branching from one receiver)
    gens = [(2, 3, 3, "NoPrefix", True), (4, 0, 2, "SharedPrefix", False)] + \
        ([(2, 2, 4, "NoPrefix", True), (3, 2, 3, "NoPrefix", True), (4, 0, 3, "SharedPrefix", False)] if thorough else [])
    nhist = 0
    for (dom, maxargs, maxops, prefix, allownew) in gens:
        g = r.tlc_must_pass("IntDataMC", cfg_text=mc_cfg(dom, maxargs, maxops, export=True, prefix=prefix, allownew=allownew),
                            workers=core.NCPU, timeout=1500)
        exp = r.path("hist-%d-%d-%d-%s.ndjson" % (dom, maxargs, maxops, prefix))
        core.write_ndjson(exp, g.prints)
        nhist += len(g.prints)
        if not g.prints:
            raise core.Inconclusive("TLC exported no history")
        rep = r.path("replay.json")
        r.pvh("intdata", "replay", **{"in": exp, "out": rep})
        judge_replay(r, rep, "IntDataMC export D=1..%d MaxArgs=%d MaxOps=%d prefix=%s" % (dom, maxargs, maxops, prefix))
    r.nontrivial += nhist
    # (3) code -> model: random long histories recorded from the real types, validated by TLC
    ntr, nops = (120, 60) if thorough else (24, 40)
    jobs = []
    chunks = 8 if thorough else 2
    for c in range(chunks):
        tr = r.path("trace-%d.ndjson" % c)
        r.pvh("intdata", "gen", seed=r.seed * 1000 + c, n=ntr // chunks, ops=nops, dom=10, out=tr)
        jobs.append(dict(module="IntDataTrace", cfg="IntDataTrace.cfg", workers=1, env={"TRACE": tr}, timeout=1200))
    outs = r.tlc_parallel(jobs)
    for c, o in enumerate(outs):
        tr = r.path("trace-%d.ndjson" % c)
        rows = core.read_ndjson(tr)
        if o.ok:
            r.traces += sum(1 for x in rows if x["op"] == "reset")
            r.evaluations += sum(1 for x in rows if x["op"] != "reset")
            if c == 0:
                r.samples.append({"direction": "code->model", "first_events": [
                    {k: v for k, v in x.items() if k != "obs"} for x in rows[1:6]]})
        elif o.rejected_line:
            # the real history up to the rejected operation is the counterexample
            k = o.rejected_line - 1
            start = max(i for i in range(k + 1) if rows[i]["op"] == "reset")
            hist = [{kk: vv for kk, vv in x.items() if kk != "obs"} for x in rows[start + 1:k + 1]]
            r.violation({"kind": "trace", "history": hist, "observed": rows[k].get("obs"), "origin": "random history seed=%d" % r.seed},
                        "real history rejected by IntDataTrace at operation %d (%s)" % (k - start, rows[k]["op"]))
        else:
            raise core.Inconclusive("trace validation did not finish: %r\n%s" % (o, core.tail(o.out_path, 20)))
    r.rule = ("model->code: every IntData history of the bounded families (operands among all earlier values, NewIntSet "
              "with duplicate arguments) replayed on the real types, all live values re-read after every operation; "
              "code->model: random histories validated by IntDataTrace. distinct_nontrivial = number of distinct exported histories")
    r.exhaustive = True
    r.extra["exhaustive_scope"] = "IntDataMC invariants: D=1..3, MaxArgs=3, MaxOps=%d; replayed families: %s" % (4 if thorough else 3, gens)


def replay(r, case):
    exp = r.path("one.ndjson")
    hist = case["history"]
    # recompute the model's expectation for this history with TLC (single behaviour), then replay on the real code
    tr = r.path("one-trace.ndjson")
    # run the real code and record, then validate: a rejection reproduces the violation
    import json
    ops = r.path("ops.json")
    with open(ops, "w") as f:
        json.dump(hist, f)
    r.pvh("intdata", "record", ops=ops, out=tr)
    o = r.tlc("IntDataTrace", cfg="IntDataTrace.cfg", workers=1, env={"TRACE": tr}, timeout=300)
    if o.ok:
        return None
    if o.rejected_line:
        return "history rejected at operation %d" % (o.rejected_line - 1)
    raise core.Inconclusive("replay did not finish: %r" % o)
