"""Shared machinery of the checks that are decided with ParsleyMachine / Derivation / ParsleyTrace
(C01, C02, C03, C04, C06, C07, C12, C17): exhaustive exploration of a grammar family with TLC,
replay of the exported cases on the real combinators, validation of recorded traces, and the
classification of a rejected trace into DRIFT or VIOLATION."""
import hashlib
import json
import os
import re

from . import core

ALLPROPS = ["C01", "C02", "C04", "C06"]


def mc_cfg(fam, maxlen, alphabet, nslices=1, slice_=0, base=1, export=True, maxcalls=400, maxdepth=150,
           maxres=16, nameall=False, wrap="none", twophase=False, pinned_seq=False, pinned_any=False, invariants=None, deadlock=True, liveness=False):
    inv = invariants or ["ReentryBound", "Complete", "StartsOK", "XorOutcome", "SentenceIff", "FurthestError",
                         "AtMostOnceLRFree", "Transparent"]
    if export:
        inv = inv + ["Export"]
    t = "CONSTANTS PinnedSeqReset = %s  PinnedAnyDrop = %s\n" % (str(pinned_seq).upper(), str(pinned_any).upper())
    t += '  Fam = "%s"  MaxLen = %d  Alphabet = {%s}  Base = %d  NSlices = %d  Slice = %d\n' % (
        fam, maxlen, ", ".join(str(c) for c in alphabet), base, nslices, slice_)
    t += '  MaxCalls = %d  MaxDepth = %d  MaxRes = %d  Wrap = "%s"  TwoPhase = %s  NameAll = %s  DoExport = %s\n' % (
        maxcalls, maxdepth, maxres, wrap, str(twophase).upper(), str(nameall).upper(), str(export).upper())
    if liveness:
        t += "SPECIFICATION Spec\nPROPERTY Terminates\n"
    else:
        t += "INIT Init\nNEXT Next\n"
    t += "CONSTRAINT Budget\nINVARIANTS %s\nPROPERTY CacheMonotoneMC\nCHECK_DEADLOCK %s\n" % (" ".join(inv), str(deadlock).upper())
    return t


def trace_cfg(judge_only, props):
    return ('CONSTANTS PinnedSeqReset = FALSE  PinnedAnyDrop = FALSE  JudgeOnly = %s\n  Props = {%s}\n'
            'INIT TraceInit\nNEXT TraceNext\nINVARIANTS Hwm TraceReentryBound\nPOSTCONDITION Accepted\nCHECK_DEADLOCK FALSE\n' % (
                str(judge_only).upper(), ", ".join('"%s"' % p for p in props)))


def explore(r, fam, maxlen, alphabet, **kw):
    """exhaustive TLC exploration of one family slice; returns (TlcOut, cases, cut)"""
    timeout = kw.pop("timeout", 1500)
    cex = r.path("cex-%d.json" % (r._k + 1))
    o = r.tlc("ParsleyMC", cfg_text=mc_cfg(fam, maxlen, alphabet, **kw), workers=core.NCPU, timeout=timeout,
              extra=["-dumpTrace", "json", cex])
    o.cex = None
    if os.path.exists(cex):
        try:
            st = json.load(open(cex))["counterexample"]["state"][-1][1]
            o.cex = {"G": st["G"], "w": st["w"], "B": st["B"]}
        except (ValueError, KeyError, IndexError):
            pass
    cut = 0
    with open(o.out_path, errors="replace") as f:
        for line in f:
            if line.startswith('"CUT"'):
                cut += 1
    return o, o.prints, cut


def model_counterexample(o):
    """text of the Print line(s) TLC gave for a violated model invariant"""
    msgs = []
    with open(o.out_path, errors="replace") as f:
        for line in f:
            if line.startswith("<<\"INCOMPLETE") or line.startswith("<<\"FURTHEST") or line.startswith("<< \"INCOMPLETE") \
                    or line.startswith("<< \"FURTHEST") or line.startswith("Error: Invariant") or line.startswith("Error: Action property"):
                msgs.append(line.strip()[:600])
    return msgs[:4]


def case_key(c):
    return hashlib.sha1(json.dumps([c.get("G"), c.get("w"), c.get("B")], sort_keys=True).encode()).hexdigest()[:16]


def gtext(G):
    out = []
    for i, n in enumerate(G):
        s = "%d:%s%s" % (i + 1, n["k"], n.get("mode", ""))
        if n["k"] == "term":
            s += "'%s'" % chr(n["ch"])
        if n.get("kids"):
            s += str(n["kids"])
        out.append(s)
    return " ".join(out)


def wtext(w):
    return "".join(chr(c) for c in w)


def split_cases(rows):
    """list of (begin_index, end_index_exclusive)"""
    idx = [i for i, x in enumerate(rows) if x.get("ev") == "begin"]
    return [(b, (idx[k + 1] if k + 1 < len(idx) else len(rows))) for k, b in enumerate(idx)]


def case_of_line(spans, line0):
    for (b, e) in spans:
        if b <= line0 < e:
            return (b, e)
    return spans[-1]


def judge_message(o):
    with open(o.out_path, errors="replace") as f:
        txt = f.read()
    m = re.findall(r'<<\s*"(C\d\d [^"]*)"(.*?)>>\s+FALSE', txt, re.S)
    if m:
        return (m[-1][0] + " " + " ".join(m[-1][1].split()))[:700]
    return ""


def split_trace_file(r, path, parts):
    """split a probe trace file at case boundaries into up to `parts` files (validated by independent JVMs)"""
    rows = core.read_ndjson(path)
    spans = split_cases(rows)
    if len(spans) < 2 * parts or len(rows) < 20000:
        return [path]
    per = (len(spans) + parts - 1) // parts
    out = []
    for k in range(parts):
        chunk = spans[k * per:(k + 1) * per]
        if not chunk:
            continue
        p = "%s.part%d" % (path, k)
        core.write_ndjson(p, rows[chunk[0][0]:chunk[-1][1]])
        out.append(p)
    return out


def judge_file(r, path, rows, props, res, maxviol=8):
    """JudgeOnly: evaluate the property predicates on every logged observation of the file; each rejected case is a
    VIOLATION (the predicate is false on a real run); the case is removed and the rest judged again"""
    spans = split_cases(rows)
    n = 0
    while rows and n <= maxviol:
        j = r.tlc("ParsleyTrace", cfg_text=trace_cfg(True, props), workers=1, env={"TRACE": path}, timeout=1700, count=False)
        if j.ok:
            return
        if not j.rejected_line:
            raise core.Inconclusive("judge run did not finish: %r\n%s" % (j, core.tail(j.out_path, 30)))
        k0 = min(j.rejected_line, len(rows)) - 1
        (b, e) = case_of_line(spans, k0)
        begin = rows[b]
        if rows[k0].get("ev") == "begin":
            raise core.Inconclusive("generator claim rejected by the specification (inadmissible / unproductive grammar): %s" % gtext(begin["G"]))
        msg = judge_message(j)
        case = {"kind": "parsecase", "G": begin["G"], "w": begin["w"], "B": begin["B"], "adm": begin["adm"],
                "asks": begin["asks"], "root": begin["root"], "c06": begin.get("c06", False),
                "key": case_key(begin), "grammar": gtext(begin["G"]), "input": wtext(begin["w"]),
                "rejected_event": rows[k0], "props": props}
        # the case that ran just before on the same parser graph (state left behind by an earlier parse)
        idx = spans.index((b, e))
        if idx > 0 and rows[spans[idx - 1][0]].get("G") == begin["G"]:
            pb = rows[spans[idx - 1][0]]
            case["prev"] = {"G": pb["G"], "w": pb["w"], "B": pb["B"], "adm": pb["adm"], "asks": pb["asks"]}
        if rows[k0].get("ev") == "mutation":
            case["mutation"] = {"n": rows[k0].get("n"), "pos": rows[k0].get("pos"), "at_return": rows[k0].get("at_return"), "now": rows[k0].get("now")}
            case["key"] = case["key"] + "-m"
        if r.violation(case, "%s on grammar [%s] input %r" % (msg or "property predicate false", gtext(begin["G"]), wtext(begin["w"]))):
            res["violations"] += 1
        n += 1
        rows = rows[:b] + rows[e:]
        spans = split_cases(rows)
        path = r.path("judge-%d-%d.ndjson" % (r._k, n))
        core.write_ndjson(path, rows)


def enough(r):
    """as many violations as a run records: further exploration cannot change the verdict"""
    return len(r.violations) >= 25


def validate_traces(r, files, props, maxfix=2):
    """Validate recorded traces of the real code.
    Full run (machine stepped + the predicates of `props`): accepted -> conformance and property hold on every event.
    Rejected: the whole file is judged with JudgeOnly (only the property predicates on the logged observations): every
    case rejected there is a VIOLATION; a case that only the machine rejects is DRIFT (a behaviour-preserving
    difference between code and operational model) and is reported as a warning."""
    res = {"accepted_cases": 0, "events": 0, "drift_cases": 0, "violations": 0}
    jobs = [dict(module="ParsleyTrace", cfg_text=trace_cfg(False, props), workers=1, env={"TRACE": f}, timeout=1700) for f in files]
    outs = r.tlc_parallel(jobs) if jobs else []
    for fpath, o in zip(files, outs):
        rows = core.read_ndjson(fpath)
        if o.ok:
            res["accepted_cases"] += len(split_cases(rows))
            res["events"] += len(rows)
            continue
        if not o.rejected_line:
            raise core.Inconclusive("trace validation did not finish: %r\n%s" % (o, core.tail(o.out_path, 30)))
        # 1. the property predicates on everything that was recorded
        nv = res["violations"]
        judge_file(r, fpath, rows, props, res)
        if enough(r):
            continue          # the verdict is in; drift bookkeeping would only burn time
        # 2. how far does the machine follow? (drift bookkeeping; bounded number of re-runs)
        cur_rows, cur_o, fixes = rows, o, 0
        while True:
            spans = split_cases(cur_rows)
            if cur_o.ok:
                res["accepted_cases"] += len(spans)
                res["events"] += len(cur_rows)
                break
            if not cur_o.rejected_line:
                break
            k0 = min(cur_o.rejected_line, len(cur_rows)) - 1
            (b, e) = case_of_line(spans, k0)
            begin, ev = cur_rows[b], cur_rows[k0]
            if ev.get("ev") == "begin":
                raise core.Inconclusive("generator claim rejected by the specification: %s" % gtext(begin["G"]))
            res["drift_cases"] += 1
            res.setdefault("drift_grammars", [])
            if len(res["drift_grammars"]) < 6 and not any(x["G"] == begin["G"] for x in res["drift_grammars"]):
                res["drift_grammars"].append({"G": begin["G"], "w": begin["w"], "B": begin["B"], "adm": begin["adm"]})
            if res["violations"] == nv:
                r.drift.append("real trace of grammar [%s] on %r leaves ParsleyMachine at event %d (%s node %s pos %s) while every %s predicate holds on it"
                               % (gtext(begin["G"]), wtext(begin["w"]), k0 - b, ev.get("ev"), ev.get("n"), ev.get("pos"), "/".join(props)))
            fixes += 1
            cur_rows = cur_rows[:b] + cur_rows[e:]
            if not cur_rows or fixes > maxfix:
                break
            path = r.path("rest-%d-%d.ndjson" % (r._k, fixes))
            core.write_ndjson(path, cur_rows)
            cur_o = r.tlc("ParsleyTrace", cfg_text=trace_cfg(False, props), workers=1, env={"TRACE": path}, timeout=1700)
    r.traces += res["accepted_cases"]
    if res.get("drift_grammars") and props and not getattr(r, "_escalating", False):
        escalate(r, res.pop("drift_grammars"), props, res)
    return res


def escalate(r, grammars, props, res):
    """DRIFT means the code no longer follows the operational model on these grammars although the predicates held on the
    explored inputs. The remaining budget is spent on exactly these grammars: every input one byte longer than the
    drifting one (over the grammar's own terminals), judged by the property predicates alone."""
    import itertools
    r._escalating = True
    try:
        cases = []
        for g in grammars:
            alpha = sorted({n["ch"] for n in g["G"] if n["k"] == "term"}) or [97]
            maxlen = min(len(g["w"]) + 1, 6 if len(alpha) <= 2 else 5)
            for L in range(0, maxlen + 1):
                for w in itertools.product(alpha, repeat=L):
                    if len(cases) > 1500:
                        break
                    cases.append({"G": g["G"], "w": list(w), "B": g["B"], "adm": g["adm"],
                                  "asks": [{"n": a[0], "p": a[1], "res": [], "err": [], "calls": 0, "cerr": [], "ends": []} for a in asks_for(g["G"], list(w), g["B"])]})
        if not cases:
            return
        inp = r.path("esc-%d.ndjson" % r._k)
        core.write_ndjson(inp, cases)
        tr = r.path("esc-trace-%d.ndjson" % r._k)
        r.pvh("parse", "replay", **{"in": inp, "out": r.path("esc-%d.json" % r._k), "trace": tr, "watch": 1 if "C07" in props else 0, "trees": 1 if "C01" in props else 0})
        rows = core.read_ndjson(tr)
        before = res["violations"]
        judge_file(r, tr, rows, props, res)
        res["escalation"] = {"grammars": len(grammars), "cases": len(cases), "violations_found": res["violations"] - before}
        r.evaluations += len(cases)
    finally:
        r._escalating = False


def long_inputs(r, props, sizes, fams=("lr", "lr2", "hidden", "mutual", "arith", "brackets2"), tag="long"):
    """inputs of 60-130 positions on the left-recursive families of C17MC (grammar and input come from the specification):
    only the events of the top-level calls are recorded and the property predicates judge them (Derivation!Ends for an
    input of that length is cheap; stepping the machine through tens of thousands of events is not)"""
    if enough(r):
        return None
    cfg = ('CONSTANTS PinnedSeqReset = FALSE PinnedAnyDrop = FALSE Fams = {%s} Sizes = {%s} RunMachine = FALSE Variants = {"good", "bad"}\n'
           'INIT Init\nNEXT Next\nINVARIANTS Export\nCHECK_DEADLOCK FALSE\n' % (", ".join('"%s"' % f for f in fams), ", ".join(map(str, sizes))))
    o = r.tlc("C17MC", cfg_text=cfg, workers=4, timeout=900, count=False)
    if not o.ok or not o.prints:
        raise core.Inconclusive("C17MC (long inputs) failed: %r" % o)
    cases = []
    for c in sorted(o.prints, key=lambda c: (c["fam"], c["n"])):
        G, w, B = c["G"], c["w"], 1
        nts = [i + 1 for i, n in enumerate(G) if n["k"] == "memo"]
        asks = [[c["root"], B]] + [[n, B] for n in nts] + [[n, B + len(w) // 2] for n in nts]
        cases.append({"G": G, "w": w, "B": B, "adm": True, "fam": c["fam"],
                      "asks": [{"n": a[0], "p": a[1], "res": [], "err": [], "calls": 0, "cerr": [], "ends": []} for a in asks]})
    inp = r.path("%s-cases-%d.ndjson" % (tag, r._k))
    core.write_ndjson(inp, cases)
    tr = r.path("%s-trace-%d.ndjson" % (tag, r._k))
    rep = r.path("%s-%d.json" % (tag, r._k))
    r.pvh("parse", "replay", **{"in": inp, "out": rep, "trace": tr, "budget": 3000000, "toponly": 1, "trees": 0}, timeout=3000)
    rows = core.read_ndjson(tr)
    res = {"violations": 0}
    for v in json.load(open(rep))["violations"]:      # what the probes themselves stop: the re-entry bound (C02)
        # (the harness' own comparison with expected ends does not apply here: the cases carry no expectation)
        if v["prop"] in props and v.get("what") == "re-entry bound exceeded":
            c = v["case"]
            case = {"kind": "parsecase", "G": c["G"], "w": c["w"], "B": c["B"], "adm": c["adm"], "asks": [[a["n"], a["p"]] for a in c["asks"]],
                    "root": c["asks"][0]["n"], "key": case_key(c), "grammar": gtext(c["G"]), "input": wtext(c["w"]), "props": props,
                    "detail": {k: v[k] for k in v if k not in ("case", "prev")}}
            if r.violation(case, "%s: %s on grammar [%s] input of %d bytes" % (v["prop"], v.get("what"), gtext(c["G"]), len(c["w"]))):
                res["violations"] += 1
    judge_file(r, tr, rows, props, res)
    nb = sum(1 for x in rows if x.get("ev") == "begin")
    r.evaluations += nb
    r.traces += nb if res["violations"] == 0 else 0
    return {"families": list(fams), "sizes": list(sizes), "cases": len(cases), "judged": nb, "violations": res["violations"]}


def replay_cases(r, cases, tag, props, watch=False, budget=4000, validate=True, chunks=None, trees=False):
    """model -> code: run exported cases on the real combinators; then validate the recorded traces"""
    if not cases:
        return None
    # the harness builds a grammar once and reuses it for consecutive cases with the same grammar: group the cases by
    # grammar; the inputs of a grammar are run longest-first or shortest-first (state surviving in the parser graph
    # from one parse to the next must not matter)
    def gkey(c):
        k = json.dumps(c["G"], sort_keys=True)
        desc = (hashlib.sha1(k.encode()).digest()[0] % 2 == 0)
        return (k, -len(c["w"]) if desc else len(c["w"]), c["w"])
    cases = sorted(cases, key=gkey)
    chunks = chunks or max(1, min(core.NCPU // 2, len(cases) // 150 + 1))
    files, reps = [], []
    per = (len(cases) + chunks - 1) // chunks
    for c in range(chunks):
        part = cases[c * per:(c + 1) * per]
        if not part:
            continue
        inp = r.path("cases-%s-%d.ndjson" % (tag, c))
        core.write_ndjson(inp, part)
        rep = r.path("rep-%s-%d.json" % (tag, c))
        tr = r.path("trace-%s-%d.ndjson" % (tag, c))
        r.pvh("parse", "replay", **{"in": inp, "out": rep, "trace": tr, "budget": budget, "watch": 1 if watch else 0, "trees": 1 if trees else 0})
        reps.append(json.load(open(rep)))
        files.append(tr)
    tot = {"cases": 0, "asks": 0, "skipped_budget": 0, "nontrivial": 0, "events": 0, "drift": 0, "violations": 0}
    for rep in reps:
        for k in ("cases", "asks", "skipped_budget", "nontrivial", "events"):
            tot[k] += rep[k]
        for d in rep["drift"]:
            tot["drift"] += 1
            if len(r.drift) < 10:
                r.drift.append("outcome of real code differs from ParsleyMachine on [%s] %r ask %d: real %s machine %s" % (
                    d["grammar"], d["w"], d["ask"], json.dumps(d["real"])[:300], json.dumps(d["machine"])[:300]))
        for v in rep["violations"]:
            if v["prop"] not in props:
                continue
            c = v["case"]
            case = {"kind": "parsecase", "G": c["G"], "w": c["w"], "B": c["B"], "adm": c["adm"],
                    "asks": [[a["n"], a["p"]] for a in c["asks"]], "root": c["asks"][0]["n"], "key": case_key(c),
                    "grammar": gtext(c["G"]), "input": wtext(c["w"]), "props": props,
                    "detail": {k: v[k] for k in v if k not in ("case", "prev")}}
            if v.get("prev"):
                pc = v["prev"]
                case["prev"] = {"G": pc["G"], "w": pc["w"], "B": pc["B"], "adm": pc["adm"], "asks": [[a["n"], a["p"]] for a in pc["asks"]]}
            if r.violation(case, "%s: %s on grammar [%s] input %r" % (
                    v["prop"], json.dumps({k: v[k] for k in v if k not in ("case", "prop")})[:300], gtext(c["G"]), wtext(c["w"]))):
                tot["violations"] += 1
        for s in rep.get("samples") or []:
            if len(r.samples) < 4:
                r.samples.append({"direction": "model->code (%s)" % tag, "case": s})
    r.evaluations += tot["cases"] - tot["skipped_budget"]
    r.nontrivial += tot["nontrivial"]
    if validate:
        tot["trace"] = validate_traces(r, files, props)
    return tot


def random_traces(r, n, props, chunks=None, **opts):
    """code -> model: random admissible grammars on the real combinators, validated by TLC"""
    chunks = chunks or max(1, min(core.NCPU // 2, n // 60 + 1))
    files = []
    tot = {"traces": 0, "events": 0, "skipped_budget": 0}
    for c in range(chunks):
        tr = r.path("rnd-%d-%d.ndjson" % (r._k, c))
        kw = dict(opts)
        kw.update(seed=r.seed * 7919 + c * 31 + opts.get("seed_off", 0), n=(n + chunks - 1) // chunks, out=tr)
        kw.pop("seed_off", None)
        rc, so, se = r.pvh("parse", "gen", **kw)
        info = json.loads(so.strip().splitlines()[-1])
        for k in tot:
            tot[k] += info.get(k, 0)
        files.append(tr)
    if len(r.samples) < 6 and files:
        with open(files[0]) as f:
            b = json.loads(f.readline())
        r.samples.append({"direction": "code->model (random grammar)", "grammar": gtext(b["G"]), "input": wtext(b["w"]), "base": b["B"]})
    r.evaluations += tot["traces"]
    tot["trace"] = validate_traces(r, files, props)
    return tot


def replay_one(r, case, props):
    """--replay: run one recorded case on the current tree and judge it"""
    def mk(x):
        return {"G": x["G"], "w": x["w"], "B": x["B"], "adm": x.get("adm", True),
                "asks": [{"n": a[0], "p": a[1], "res": [], "err": [], "calls": 0, "cerr": [], "ends": []} for a in x["asks"]]}
    # the case that ran just before on the same parser graph is replayed first (state left behind in the graph)
    seq = ([mk(case["prev"])] if case.get("prev") else []) + [mk(case)]
    inp = r.path("one.ndjson")
    core.write_ndjson(inp, seq)
    tr = r.path("one-trace.ndjson")
    r.pvh("parse", "replay", **{"in": inp, "out": r.path("one.json"), "trace": tr, "watch": 1})
    rep = json.load(open(r.path("one.json")))
    for v in rep["violations"]:
        if v["prop"] in ("C02", "C07") and v["prop"] in (props + [r.id]):
            return "%s: %s" % (v["prop"], json.dumps({k: v[k] for k in v if k != "case"})[:400])
    j = r.tlc("ParsleyTrace", cfg_text=trace_cfg(True, props), workers=1, env={"TRACE": tr}, timeout=600)
    if j.ok:
        return None
    if j.rejected_line:
        return judge_message(j) or "property predicate false at line %d" % j.rejected_line
    raise core.Inconclusive("replay did not finish: %r" % j)


def asks_for(G, w, B):
    root = max(i + 1 for i, n in enumerate(G) if n["k"] == "seq" and n["mode"] == "of" and len(n["kids"]) == 2
               and G[n["kids"][1] - 1]["k"] == "end")
    asks = [[root, B]]
    for i, n in enumerate(G):
        if n["k"] == "memo":
            for p in range(len(w) + 1):
                asks.append([i + 1, B + p])
    return asks


def handle_model_violation(r, o, props, what):
    """TLC found a counterexample IN THE MODEL. It is a property violation only if the real code
    reproduces it; otherwise the model is wrong and the check is inconclusive (exit 2)."""
    msgs = model_counterexample(o)
    if not o.cex:
        raise core.Inconclusive("model invariant violated but no counterexample could be read: %s %s" % (o.error, msgs))
    c = o.cex
    case = {"kind": "parsecase", "G": c["G"], "w": c["w"], "B": c["B"], "adm": False, "asks": asks_for(c["G"], c["w"], c["B"]),
            "root": len(c["G"]), "key": case_key(c), "grammar": gtext(c["G"]), "input": wtext(c["w"]), "props": props,
            "model_counterexample": msgs, "origin": what}
    bad = replay_one(r, case, props)
    if bad:
        r.violation(case, "model counterexample reproduced by the real code: %s; grammar [%s] input %r" % (bad, gtext(c["G"]), wtext(c["w"])))
        return
    raise core.Inconclusive("ParsleyMC reports %s (%s) on grammar [%s] input %r but the real code does not reproduce it: "
                            "the model is wrong here" % (o.error, "; ".join(msgs)[:500], gtext(c["G"]), wtext(c["w"])))


def run_plan(r, plan):
    """plan: props, families [(fam, maxlen, alphabet, nslices, [slices], kw)], random [(n, opts)], watch"""
    props = plan["props"]
    fam_stats = []
    for (fam, maxlen, alphabet, nslices, slices, kw) in plan["families"]:
        for sl in slices:
            if enough(r):
                fam_stats.append({"family": fam, "slice": "%d/%d" % (sl, nslices), "skipped": "25 violations already recorded", "runs_cut_by_budget": 0})
                continue
            o, cases, cut = explore(r, fam, maxlen, alphabet, nslices=nslices, slice_=sl, **kw)
            st = {"family": fam, "maxlen": maxlen, "alphabet": alphabet, "slice": "%d/%d" % (sl, nslices), "runs_exported": len(cases),
                  "runs_cut_by_budget": cut, "states": o.distinct, "wall_s": round(o.wall, 1)}
            if not o.ok:
                if o.error and ("violated" in o.error or "Deadlock" in o.error):
                    handle_model_violation(r, o, props, "ParsleyMC %s slice %d/%d" % (fam, sl, nslices))
                    st["model_violation"] = o.error
                    fam_stats.append(st)
                    continue
                raise core.Inconclusive("ParsleyMC did not finish: %r\n%s" % (o, core.tail(o.out_path, 30)))
            if not cases:
                raise core.Inconclusive("ParsleyMC exported no case for %s" % fam)
            rep = replay_cases(r, cases, "%s-%d" % (fam, sl), props, watch=plan.get("watch", False), trees=plan.get("trees", False))
            st["replay"] = rep
            fam_stats.append(st)
    rnd_stats = []
    for (n, opts) in plan.get("random", []):
        if enough(r):
            break
        rnd_stats.append({"opts": opts, "result": random_traces(r, n, props, **opts)})
    r.extra["families"] = fam_stats
    r.extra["random"] = rnd_stats
    r.extra["skipped_budget"] = sum((f.get("replay") or {}).get("skipped_budget", 0) for f in fam_stats) + \
        sum(x["result"]["skipped_budget"] for x in rnd_stats)
    r.exhaustive = all(f["slice"] == "0/1" for f in fam_stats) and all(f["runs_cut_by_budget"] == 0 for f in fam_stats)


def _only_ends_moved(a, b):
    """two rendered tree lists that differ only in END positions (index 2 of a tree), ends never moving left"""
    if isinstance(a, list) and isinstance(b, list):
        if len(a) != len(b):
            return False
        if len(a) >= 3 and isinstance(a[0], str) and a[0] in ("T", "N", "E", "EOF") and isinstance(a[1], int):
            if a[0] != b[0] or a[1] != b[1] or not (isinstance(b[2], int) and b[2] >= a[2]):
                return False
            return all(_only_ends_moved(x, y) for x, y in zip(a[3:], b[3:]))
        return all(_only_ends_moved(x, y) for x, y in zip(a, b))
    return a == b


def _changed_nodes(a, b, out):
    """collect (kind, token, some child changed) for every rendered node whose end differs between a and b"""
    if isinstance(a, list) and a and isinstance(a[0], str) and a[0] in ("T", "N", "E", "EOF") and len(a) >= 3 and isinstance(a[1], int):
        kids_changed = False
        if a[0] == "N" and len(a) > 4:
            before = len(out)
            for x, y in zip(a[4], b[4]):
                _changed_nodes(x, y, out)
            kids_changed = len(out) > before
        if a[2] != b[2]:
            out.append((a[0], a[3] if len(a) > 3 else "", kids_changed))
        return
    if isinstance(a, list) and isinstance(b, list):
        for x, y in zip(a, b):
            _changed_nodes(x, y, out)


def matcher_rtrim_moves_end(case):
    """known finding D7: text.RightTrim moves the end position of the node(s) its operand returned IN PLACE
    (ast.SetReaderPos), so a memoised result that is also used untrimmed is changed after it was returned.
    Matches only: the grammar contains a RightTrim, and the recorded mutation moved end positions and nothing else."""
    G = case.get("G") or []
    if not any(n.get("k") == "rtrim" for n in G):
        return False
    m = (case.get("detail") or {}).get("mutation") or case.get("mutation")
    if not m:
        return False
    # the mutated result must be the very node object a RightTrim received from its operand: the operand itself or a node
    # below it that hands its operand's node on unchanged (Memoize, names, Any / Choice / Optional alternatives, trims);
    # a Seq builds a new node, so its children are NOT covered
    through = {"memo", "named", "pass", "any", "choice", "opt", "ltrim", "rtrim", "suppress"}
    reach = set()
    todo = [k for n in G if n.get("k") == "rtrim" for k in n.get("kids", [])] + [i + 1 for i, n in enumerate(G) if n.get("k") == "rtrim"]
    while todo:
        x = todo.pop()
        if x in reach:
            continue
        reach.add(x)
        if G[x - 1].get("k") in through:
            todo += G[x - 1].get("kids", [])
    if m.get("at_return") == m.get("now") or not _only_ends_moved(m.get("at_return"), m.get("now")):
        return False
    # every node whose end moved must be a node that such an operand chain can have returned (a terminal of that chain with
    # the same token, or a sequence of that chain); the rendering of an enclosing node changes with it, which is the same finding
    changed = []
    _changed_nodes(m.get("at_return"), m.get("now"), changed)
    ok_terms = {chr(G[x - 1]["ch"]) for x in reach if G[x - 1].get("k") == "term"}
    has_seq = any(G[x - 1].get("k") == "seq" for x in reach)
    for (kind, tok, kids_changed) in changed:
        if kind == "T" and tok not in ok_terms:
            return False
        if kind == "N" and not kids_changed and not has_seq:
            return False
    return bool(changed)


core.MATCHERS["rtrim_moves_end"] = matcher_rtrim_moves_end
