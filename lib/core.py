"""Common machinery of the /verif checks: building the Go conformance harness from /repo's
current working tree, running TLC on the specifications in /verif/spec, collecting
coverage, known findings, VIOLATION lines, replay files and evidence files."""
import hashlib
import json
import os
import re
import shutil
import subprocess
import sys
import time
from concurrent.futures import ThreadPoolExecutor

ROOT = os.path.dirname(os.path.dirname(os.path.abspath(__file__)))
REPO = os.environ.get("VERIF_REPO", "/repo")
SPEC = os.path.join(ROOT, "spec")
HARNESS = os.path.join(ROOT, "harness")
WORK = os.path.join(ROOT, ".work")
TLA_CP = "/opt/veriftools/tla/tla2tools.jar:/opt/veriftools/tla/CommunityModules-deps.jar"
NCPU = os.cpu_count() or 4

GOENV = dict(GOFLAGS="-mod=mod", GOPROXY="off", GOSUMDB="off", GOTOOLCHAIN="local")


class Inconclusive(Exception):
    """the check itself is broken or could not finish (exit 2, never a VIOLATION)"""


def log(*a):
    print(*a, flush=True)


class TlcOut:
    def __init__(self):
        self.generated = 0
        self.distinct = 0
        self.ok = False
        self.error = None          # first "Error:" line
        self.rejected_line = None  # trace validation: first unmatched line (1-based)
        self.out_path = None
        self.rc = None
        self.wall = 0.0
        self.prints = []           # JSON values printed with PrintT(ToJson(..))
        self.coverage = {}

    def __repr__(self):
        return "TlcOut(ok=%s gen=%d distinct=%d err=%r rej=%r)" % (
            self.ok, self.generated, self.distinct, self.error, self.rejected_line)


class Run:
    def __init__(self, pid, tier, seed, level="model_checking"):
        self.id = pid
        self.tier = tier
        self.seed = seed
        self.level = level
        self.t0 = time.time()
        self.scratch = os.path.join(WORK, "run", "%s-%s-%d" % (pid, tier, os.getpid()))
        shutil.rmtree(self.scratch, ignore_errors=True)
        os.makedirs(self.scratch)
        self.states = 0
        self.transitions = 0
        self.traces = 0
        self.evaluations = 0
        self.nontrivial = 0
        self.samples = []
        self.rule = ""
        self.exhaustive = None
        self.extra = {}
        self.assumptions = []
        self.violations = []
        self.known_hits = []
        self.drift = []
        self.tlc_runs = []
        self._pvh = {}
        self._spec_copied = False
        self._k = 0
        self.known = [k for k in load_known() if k.get("property") == pid]

    # ------------------------------------------------------------------ harness
    def pvh_bin(self, race=False):
        key = "race" if race else "plain"
        if key in self._pvh:
            return self._pvh[key]
        out = os.path.join(self.scratch, "pvh-" + key)
        env = dict(os.environ)
        env.update(GOENV)
        if race:
            env["CGO_ENABLED"] = "1"
        # the harness module is built from a scratch copy whose replace directive points at the repository under test
        # (normally /repo; VERIF_REPO selects another working tree, e.g. a snapshot for a background run)
        hdir = os.path.join(self.scratch, "harness-src")
        if not os.path.isdir(hdir):
            shutil.copytree(HARNESS, hdir)
            gm = os.path.join(hdir, "go.mod")
            with open(gm) as f:
                t = f.read()
            with open(gm, "w") as f:
                f.write(t.replace("=> /repo", "=> " + REPO))
            try:
                shutil.copy(os.path.join(REPO, "go.sum"), os.path.join(hdir, "go.sum"))
            except OSError:
                pass
        cmd = ["go", "build", "-tags", "verif"] + (["-race"] if race else []) + ["-o", out, "."]
        p = subprocess.run(cmd, cwd=hdir, env=env, stdout=subprocess.PIPE, stderr=subprocess.STDOUT, text=True)
        if p.returncode != 0:
            raise Inconclusive("harness build failed (does /repo still compile?):\n" + p.stdout[-3000:])
        self._pvh[key] = out
        return out

    def pvh(self, component, mode, race=False, timeout=1800, env=None, check=True, **kw):
        """run the Go harness; returns (returncode, stdout, stderr)"""
        cmd = [self.pvh_bin(race), component, mode] + ["%s=%s" % (k, v) for k, v in kw.items()]
        e = dict(os.environ)
        if env:
            e.update(env)
        try:
            p = subprocess.run(cmd, cwd=self.scratch, env=e, stdout=subprocess.PIPE, stderr=subprocess.PIPE,
                               text=True, timeout=timeout)
        except subprocess.TimeoutExpired:
            raise Inconclusive("harness timed out: " + " ".join(cmd))
        if check and p.returncode != 0:
            raise Inconclusive("harness failed rc=%d: %s\n%s" % (p.returncode, " ".join(cmd), p.stderr[-3000:]))
        return p.returncode, p.stdout, p.stderr

    def path(self, name):
        return os.path.join(self.scratch, name)

    # ---------------------------------------------------------------------- TLC
    def _specdir(self):
        d = os.path.join(self.scratch, "spec")
        if not self._spec_copied:
            shutil.copytree(SPEC, d)
            self._spec_copied = True
        return d

    def tlc(self, module, cfg=None, cfg_text=None, workers=1, env=None, timeout=900, simulate=None,
            depth=None, coverage=False, count=True, extra=None, dfs=False):
        """run TLC on spec/<module>.tla with spec/<cfg> (or the given cfg text)"""
        d = self._specdir()
        self._k += 1
        k = self._k
        if cfg_text is not None:
            cfg = "gen-%d.cfg" % k
            with open(os.path.join(d, cfg), "w") as f:
                f.write(cfg_text)
        if cfg is None:
            cfg = module + ".cfg"
        meta = os.path.join(self.scratch, "md-%d" % k)
        outp = os.path.join(self.scratch, "tlc-%d-%s.out" % (k, module))
        jopts = "-Xss512m"
        if dfs:
            jopts += " -Dtlc2.tool.queue.IStateQueue=StateDeque"
        e = dict(os.environ)
        e["JAVA_TOOL_OPTIONS"] = jopts
        if env:
            e.update({k2: str(v) for k2, v in env.items()})
        cmd = ["java", "-XX:+UseParallelGC", "-cp", TLA_CP, "tlc2.TLC", "-workers", str(workers),
               "-metadir", meta, "-config", cfg]
        if simulate:
            cmd += ["-simulate", simulate]
        if depth:
            cmd += ["-depth", str(depth)]
        if coverage:
            cmd += ["-coverage", "1"]
        if extra:
            cmd += extra
        cmd += [module + ".tla"]
        t0 = time.time()
        r = TlcOut()
        r.out_path = outp
        with open(outp, "w") as fo:
            try:
                p = subprocess.run(cmd, cwd=d, env=e, stdout=fo, stderr=subprocess.STDOUT, timeout=timeout)
                r.rc = p.returncode
            except subprocess.TimeoutExpired:
                r.rc = -9
                r.error = "timeout after %ds" % timeout
        r.wall = time.time() - t0
        shutil.rmtree(meta, ignore_errors=True)
        self._parse_tlc(r)
        if count:
            self.states += r.distinct
            self.transitions += r.generated
        self.tlc_runs.append({"module": module, "cfg": cfg, "workers": workers, "generated": r.generated,
                              "distinct": r.distinct, "wall_s": round(r.wall, 1), "ok": r.ok})
        return r

    def _parse_tlc(self, r):
        done = False
        with open(r.out_path, errors="replace") as f:
            for line in f:
                if line.startswith('"{') or line.startswith('"['):
                    try:
                        r.prints.append(json.loads(json.loads(line)))
                    except ValueError:
                        pass
                    continue
                m = re.match(r"(\d+) states generated, (\d+) distinct states found", line)
                if m:
                    r.generated, r.distinct = int(m.group(1)), int(m.group(2))
                    continue
                m = re.search(r'"REJECTED at line", (\d+)', line)
                if m:
                    r.rejected_line = int(m.group(1))
                    continue
                if line.startswith("Error:") and r.error is None:
                    r.error = line.strip()
                    continue
                if "Model checking completed. No error has been found." in line or \
                        "Finished computing initial states" in line and False:
                    done = True
                m = re.match(r"<(\w+) line \d+, col \d+ to line \d+, col \d+ of module (\w+)>: (\d+):(\d+)", line)
                if m:
                    r.coverage[m.group(2) + "!" + m.group(1)] = int(m.group(4))
        r.ok = done and r.error is None and r.rc == 0

    def tlc_must_pass(self, *a, **kw):
        r = self.tlc(*a, **kw)
        if not r.ok:
            raise Inconclusive("TLC run failed: %r (see %s)\n%s" % (r, r.out_path, tail(r.out_path, 25)))
        return r

    def tlc_parallel(self, jobs, maxpar=None):
        """jobs: list of kwargs dicts for self.tlc; run them concurrently"""
        self._specdir()
        with ThreadPoolExecutor(max_workers=maxpar or max(1, NCPU // 2)) as ex:
            return list(ex.map(lambda kw: self.tlc(**kw), jobs))

    # ----------------------------------------------------------------- verdicts
    def violation(self, case, what=""):
        """a property predicate failed on an observation of the real code"""
        key = case.get("key") or hashlib.sha1(json.dumps(case, sort_keys=True, default=str).encode()).hexdigest()[:16]
        for k in self.known:
            if k.get("status", "known") == "known" and finding_matches(k, case, key):
                if k["key"] not in [h["key"] for h in self.known_hits]:
                    self.known_hits.append(k)
                return False
        d = os.path.join(ROOT, "replays", self.id)
        os.makedirs(d, exist_ok=True)
        p = os.path.join(d, "%s.json" % key)
        case = dict(case)
        case.setdefault("property", self.id)
        case["what"] = what
        with open(p, "w") as f:
            json.dump(case, f, indent=1, default=str)
        if len(self.violations) < 25:
            self.violations.append({"replay": p, "what": what})
        return True

    def finish(self):
        wall = time.time() - self.t0
        cov = {
            "states": self.states, "transitions": self.transitions,
            "traces_validated_against_impl": self.traces,
            "evaluations": self.evaluations, "distinct_nontrivial": self.nontrivial,
            "rule": self.rule, "samples": self.samples[:8] or ["(no sample recorded)"],
            "tlc_runs": self.tlc_runs,
            "known_findings_hit": [k["key"] for k in self.known_hits],
            "drift": self.drift[:10],
        }
        if self.exhaustive is not None:
            cov["exhaustive"] = self.exhaustive
        cov.update(self.extra)
        ev = {"property_id": self.id, "tier": self.tier, "seed": self.seed, "level": self.level,
              "coverage": cov, "assumptions": self.assumptions, "wall_s": round(wall, 1),
              "violations": len(self.violations)}
        # evidence/<id>.json describes the check of /repo; a run against another working tree (VERIF_REPO: development, seeded
        # changes) leaves it alone and writes next to its scratch directory instead
        edir = os.path.join(ROOT, "evidence") if REPO == "/repo" else os.path.join(WORK, "evidence-other-tree")
        os.makedirs(edir, exist_ok=True)
        with open(os.path.join(edir, self.id + ".json"), "w") as f:
            json.dump(ev, f, indent=1, default=str)
        for k in self.known_hits:
            log("KNOWN-FINDING: property=%s %s" % (self.id, k.get("what", k["key"])))
        for d in self.drift[:10]:
            log("DRIFT: property=%s %s" % (self.id, d))
        for v in self.violations:
            log("VIOLATION property=%s replay=%s" % (self.id, v["replay"]))
            if v["what"]:
                log("  " + v["what"])
        log("%s %s seed=%d: states=%d transitions=%d traces=%d evaluations=%d nontrivial=%d violations=%d wall=%.0fs" % (
            self.id, self.tier, self.seed, self.states, self.transitions, self.traces, self.evaluations,
            self.nontrivial, len(self.violations), wall))
        if not os.environ.get("VERIF_KEEP"):
            shutil.rmtree(self.scratch, ignore_errors=True)
        return 1 if self.violations else 0

    def cleanup(self):
        if not os.environ.get("VERIF_KEEP"):
            shutil.rmtree(self.scratch, ignore_errors=True)


MATCHERS = {}


def finding_matches(k, case, key):
    if k.get("key") == key:
        return True
    fn = MATCHERS.get(k.get("matcher"))
    if fn:
        return bool(fn(case))
    m = k.get("match")
    if m:
        return all(case.get(f) == v for f, v in m.items())
    return False


def load_known():
    p = os.path.join(ROOT, "known_findings.json")
    if not os.path.exists(p):
        return []
    with open(p) as f:
        return json.load(f).get("findings", [])


def tail(path, n):
    try:
        with open(path, errors="replace") as f:
            return "".join(f.readlines()[-n:])
    except OSError:
        return ""


def read_ndjson(path):
    with open(path) as f:
        return [json.loads(l) for l in f if l.strip()]


def write_ndjson(path, rows):
    with open(path, "w") as f:
        for r in rows:
            f.write(json.dumps(r, separators=(",", ":")) + "\n")


def sany_all():
    """syntax/semantic check of every specification module (used by setup)"""
    bad = []
    # FileSetAbsInd extends the Apalache module (Gen), which only apalache-mc provides: it is parsed by the C11 check itself
    mods = sorted(m for m in os.listdir(SPEC) if m.endswith(".tla") and m != "FileSetAbsInd.tla")
    tmp = os.path.join(WORK, "run", "sany-%d" % os.getpid())
    shutil.rmtree(tmp, ignore_errors=True)
    shutil.copytree(SPEC, tmp)

    def one(m):
        p = subprocess.run(["java", "-cp", TLA_CP, "tla2sany.SANY", m], cwd=tmp, stdout=subprocess.PIPE,
                           stderr=subprocess.STDOUT, text=True)
        if p.returncode != 0 or "Semantic errors" in p.stdout or "*** Errors" in p.stdout or "Fatal errors" in p.stdout:
            return (m, p.stdout[-1500:])
        return None
    with ThreadPoolExecutor(max_workers=NCPU) as ex:
        for r in ex.map(one, mods):
            if r:
                bad.append(r)
    shutil.rmtree(tmp, ignore_errors=True)
    return mods, bad
