"""./check selftest : negative controls that demonstrate the binding between specification and code.
 1. a probe trace recorded from the real code is accepted; the same trace with ONE field corrupted (call counter,
    left-recursion counter, end position of a result, curtailing set) or ONE event removed is rejected at that event
 2. a corrupted end position of a top-level result is rejected by the property predicate alone (JudgeOnly, C01)
 3. an IntData history with one corrupted observation is rejected
 4. design level: the named deviations of the pinned tree violate the model's invariants
    (PinnedSeqReset -> ReentryBound, PinnedAnyDrop -> FurthestError), the repaired model does not
 5. per component specification (Reader, FileSet, Trim, Arith, Literals, TreePass, C12Trace, C14Trace, C03Trace): a recorded
    trace of the real code is accepted and the same trace with one corrupted observation is rejected at that line
exit 0 iff every control behaves as stated."""
import copy
import json

from . import core, parsefam


def main(argv):
    r = core.Run("SELFTEST", "quick", 1)
    results = []

    def control(name, ok, detail=""):
        results.append((name, ok, detail))
        print("%-78s %s %s" % (name, "ok" if ok else "FAILED", detail), flush=True)

    try:
        tr = r.path("st.ndjson")
        r.pvh("parse", "gen", seed=7, n=6, maxlen=4, out=tr)
        rows = core.read_ndjson(tr)

        def accepted(rs, judge=False, props=None):
            p = r.path("st-%d.ndjson" % r._k)
            core.write_ndjson(p, rs)
            o = r.tlc("ParsleyTrace", cfg_text=parsefam.trace_cfg(judge, props or parsefam.ALLPROPS), workers=1, env={"TRACE": p}, timeout=600)
            return o.ok, o.rejected_line

        ok, _ = accepted(rows)
        control("recorded probe trace of the real code is accepted by ParsleyTrace", ok)

        def first(pred, start=5):
            return next(i for i in range(start, len(rows)) if pred(rows[i]))

        i = first(lambda x: x.get("ev") == "call" and x.get("calls", 0) > 2)
        c = copy.deepcopy(rows); c[i]["calls"] += 1
        ok, line = accepted(c)
        control("call counter of one call event + 1 is rejected at that event", (not ok) and line == i + 1, "line %s" % line)

        i = first(lambda x: x.get("ev") == "call" and x.get("lrc"))
        c = copy.deepcopy(rows); c[i]["lrc"][0][1] += 1
        ok, line = accepted(c)
        control("one left-recursion counter + 1 is rejected at that event", (not ok) and line == i + 1, "line %s" % line)

        i = first(lambda x: x.get("ev") == "ret" and x.get("res") and not x.get("top"))
        c = copy.deepcopy(rows); c[i]["res"][0][2] += 1
        ok, line = accepted(c)
        control("end position of one returned alternative + 1 is rejected at that event", (not ok) and line == i + 1, "line %s" % line)

        i = first(lambda x: x.get("ev") == "ret" and x.get("cp"))
        c = copy.deepcopy(rows); c[i]["cp"] = []
        ok, line = accepted(c)
        control("an emptied curtailing set is rejected at that event", (not ok) and line == i + 1, "line %s" % line)

        i = first(lambda x: x.get("ev") == "ret" and not x.get("top"), start=12)
        c = rows[:i] + rows[i + 1:]
        ok, line = accepted(c)
        control("one removed return event is rejected at the next event", (not ok) and line in (i + 1, i + 2), "line %s" % line)

        i = first(lambda x: x.get("ev") == "ret" and x.get("top") and x.get("res"))
        c = copy.deepcopy(rows); c[i]["res"][0][2] = max(c[i]["res"][0][1], c[i]["res"][0][2] - 1) if c[i]["res"][0][2] > c[i]["res"][0][1] else c[i]["res"][0][2] + 1
        ok, line = accepted(c, judge=True, props=["C01"])
        control("a wrong end position of a top-level result is rejected by the C01 predicate alone (JudgeOnly)", (not ok) and line == i + 1, "line %s" % line)

        # IntData
        it = r.path("st-int.ndjson")
        r.pvh("intdata", "gen", seed=3, n=2, ops=12, dom=6, out=it)
        irows = core.read_ndjson(it)
        o = r.tlc("IntDataTrace", cfg="IntDataTrace.cfg", workers=1, env={"TRACE": it}, timeout=300)
        control("recorded IntSet/IntMap history is accepted by IntDataTrace", o.ok)
        j = next(i for i, x in enumerate(irows) if x.get("obs") and any(ob["t"] == "set" and ob["o"] for ob in x["obs"]))
        c = copy.deepcopy(irows)
        for ob in c[j]["obs"]:
            if ob["t"] == "set" and ob["o"]:
                ob["o"] = ob["o"][:-1]
                break
        p = r.path("st-int-bad.ndjson"); core.write_ndjson(p, c)
        o = r.tlc("IntDataTrace", cfg="IntDataTrace.cfg", workers=1, env={"TRACE": p}, timeout=300)
        control("an observation with one element dropped is rejected at that operation", (not o.ok) and o.rejected_line == j + 1, "line %s" % o.rejected_line)

        # one corrupted observation per component specification (the specification is the judge of every recorded line)
        def component(name, comp, mode, kw, module, pick, corrupt):
            path = r.path("st-%s.ndjson" % name)
            r.pvh(comp, mode, out=path, **kw)
            rows_ = core.read_ndjson(path)
            o = r.tlc(module, cfg=module + ".cfg", workers=1, env={"TRACE": path}, timeout=600)
            control("recorded %s observations are accepted by %s" % (name, module), o.ok, "" if o.ok else "line %s" % o.rejected_line)
            j = next((i for i, x in enumerate(rows_) if pick(x)), None)
            if j is None:
                control("%s: a line to corrupt exists" % name, False)
                return
            bad = copy.deepcopy(rows_)
            corrupt(bad[j])
            bp = r.path("st-%s-bad.ndjson" % name)
            core.write_ndjson(bp, bad)
            o = r.tlc(module, cfg=module + ".cfg", workers=1, env={"TRACE": bp}, timeout=600)
            control("%s: one corrupted field is rejected by %s at that line" % (name, module), (not o.ok) and o.rejected_line == j + 1, "line %s (corrupted %d)" % (o.rejected_line, j + 1))

        def bump(field, idx=None):
            def f(x):
                if idx is None:
                    x[field] += 1
                else:
                    x[field][idx] += 1
            return f
        component("reader", "reader", "gen", dict(seed=2, n=1, maxlen=8), "ReaderTrace",
                  lambda x: x.get("f") == "ReadRune" and x.get("ok"), bump("np"))
        component("fileset", "fileset", "gen", dict(seed=2, n=2, maxfiles=3, maxlen=12), "FileSetTrace",
                  lambda x: x.get("ev") == "q" and x.get("s") != "unknown", lambda x: x.update(s="unknown"))
        component("trim", "trim", "gen", dict(seed=2, n=20, maxtok=4), "TrimTrace",
                  lambda x: x.get("ok") is False and x.get("err"), bump("err", 0))
        component("arith", "arith", "gen", dict(seed=2, n=10), "ArithTrace",
                  lambda x: x.get("ok") is True, bump("val"))
        component("literals", "literals", "gen", dict(seed=2, n=60), "LiteralsTrace",
                  lambda x: x.get("k") == "node", bump("e"))
        component("treepass", "treepass", "gen", dict(seed=2, n=3), "TreePassTrace",
                  lambda x: len(x.get("walk", {}).get("log", [])) > 1, lambda x: x["walk"]["log"].pop())
        component("placement", "place", "gen", dict(seed=2, n=12), "C12Trace",
                  lambda x: x["b"].get("trees"), lambda x: x["b"]["trees"][0].__setitem__(2, x["b"]["trees"][0][2] + 1))
        component("gated schedules", "conc", "gated", dict(seed=2, n=3), "C14Trace",
                  lambda x: x.get("ev") == "run" and len(x.get("conc", [])) > 2, lambda x: x["conc"][1].__setitem__("calls", x["conc"][1]["calls"] + 1))
        component("memoised-vs-plain", "parse", "c03", dict(seed=2, n=4, maxlen=3), "C03Trace",
                  lambda x: x.get("plain") and x["plain"][0].get("calls", 0) > 0 and x["memo"][0].get("res"),
                  lambda x: x["memo"][0]["res"].pop())

        # design level
        o = r.tlc("ParsleyMC", cfg_text=parsefam.mc_cfg("HID", 3, [97, 98, 120], export=False, pinned_seq=True), workers=core.NCPU, timeout=900)
        control("model with PinnedSeqReset (defect D2) violates ReentryBound", bool(o.error and "ReentryBound" in o.error), str(o.error))
        o = r.tlc("ParsleyMC", cfg_text=parsefam.mc_cfg("CAT", 2, [97, 98], export=False, pinned_any=True), workers=core.NCPU, timeout=900)
        control("model with PinnedAnyDrop (defect D3) violates FurthestError", bool(o.error and "FurthestError" in o.error), str(o.error))
        o = r.tlc("ParsleyMC", cfg_text=parsefam.mc_cfg("HID", 3, [97, 98, 120], export=False), workers=core.NCPU, timeout=900)
        control("repaired model satisfies every invariant on the same family", o.ok, str(o.error))
    except core.Inconclusive as e:
        print("INCONCLUSIVE: %s" % e)
        r.cleanup()
        return 2
    r.cleanup()
    bad = [x for x in results if not x[1]]
    print("selftest: %d controls, %d failed" % (len(results), len(bad)))
    return 1 if bad else 0
