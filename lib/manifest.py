"""regenerates /verif/MANIFEST.json from the table below:  python3 -m lib.manifest"""
import json
import os

ROOT = os.path.dirname(os.path.dirname(os.path.abspath(__file__)))

CHECKS = {
    "C15": dict(
        engine="IntData",
        text="TLC explores every IntData history (operations applied to any earlier value) within small constants and "
             "checks the append-only action property; every history of the bounded families is replayed on the real "
             "IntSet/IntMap with all live values re-read after every operation, and random long real histories are "
             "validated line by line against the same actions (IntDataTrace).",
        note="bounded constants (D=1..3, <=4 ops exhaustive; 60-op random histories); values observed through the exported API only",
        technique="TLA+ state machine of persistent values + TLC exhaustive histories replayed into the real types + TLC trace validation of recorded real histories",
        ref="5 (C15)"),
}

NOT_YET = {}

ENGINES = [
    dict(name="IntData", path="spec/IntData.tla", serves_properties=["C15"],
         kind_free_text="TLA+ heap of immutable set/map values; IntDataMC (exhaustive + export), IntDataTrace (trace validation)"),
]


def build():
    ids = ["C%02d" % i for i in range(1, 18)]
    checks = []
    for pid in ids:
        c = CHECKS.get(pid)
        if not c:
            continue
        checks.append({
            "property_id": pid,
            "quick_cmd": "./check %s quick" % pid,
            "thorough_cmd": "./check %s thorough" % pid,
            "evidence_file": "evidence/%s.json" % pid,
            "replay_cmd_template": "./check %s --replay {path}" % pid,
            "engine": c["engine"],
            "level_claimed": {"category": c.get("level", "model_checking"), "text": c["text"], "design_ref": "DESIGN.md section " + c["ref"]},
            "level_note": c["note"],
            "technique": c["technique"],
        })
    na = [{"property_id": pid, "reason": NOT_YET.get(pid, "check not built yet in this round; the specification for it is planned in DESIGN.md section 5")}
          for pid in ids if pid not in CHECKS]
    m = {
        "version": 1,
        "setup_cmd": "./check setup",
        "hooks": {
            "guard": "verif",
            "enable": "go build -tags verif (the harness in /verif/harness is built with the tag; probes use the exported API, no guarded source is needed)",
            "baseline_off_cmd": "cd /repo && GOFLAGS=-mod=mod go test -vet=off -count=1 ./...",
            "source_commits": [],
            "add_only": True,
        },
        "engines": ENGINES,
        "checks": checks,
        "notes": "Every check: TLA+ specification in /verif/spec checked by TLC, bound to /repo by replaying TLC-generated cases "
                 "into the real code and by validating traces recorded from the real code (see DESIGN.md). "
                 "known_findings.json lists fixed and known defects.",
        "not_applicable": na,
    }
    with open(os.path.join(ROOT, "MANIFEST.json"), "w") as f:
        json.dump(m, f, indent=1)
    return m


if __name__ == "__main__":
    m = build()
    print("MANIFEST.json: %d checks, %d not claimed" % (len(m["checks"]), len(m["not_applicable"])))
