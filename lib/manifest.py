"""regenerates /verif/MANIFEST.json from the table below:  python3 -m lib.manifest"""
import json
import os

ROOT = os.path.dirname(os.path.dirname(os.path.abspath(__file__)))

CHECKS = {
    "C15": dict(
        engine="IntData",
        text="TLC explores every IntData history (operations applied to any earlier value) within small constants and "
             "checks the append-only action property; every history of the bounded families is replayed on the real "
             "IntSet/IntMap with all live values re-read after every operation, and random long real histories are "
             "validated line by line against the same actions (IntDataTrace).",
        note="bounded constants (D=1..3, <=4 ops exhaustive; 60-op random histories); values observed through the exported API only",
        technique="TLA+ state machine of persistent values + TLC exhaustive histories replayed into the real types + TLC trace validation of recorded real histories",
        ref="5 (C15)"),
}

PM = "ParsleyMachine"
PMNOTE = ("bounded grammar families (template families F1/F2/F3/NM/HID/HID2/HIDR/OPT/OPTLR/TLR/TSH/SNG/LRF/LRN/LINES/SEPC + catalogue) and input lengths <= 3-4 for the exhaustive part, random "
          "grammars <= 3 nonterminals and inputs <= 6 for the recorded traces; runs cut by the step/result budget are counted, not judged; "
          "TLC and the probes (pass-through wrappers using only exported API) are trusted")
CHECKS.update({
    "C01": dict(engine=PM,
        text="TLC explores ParsleyMachine (explicit-stack model of memoisation, curtailment, Seq family, Any/Choice/Optional, errors) over bounded "
             "grammar families x all inputs and checks the results of every top-level call and every context-free cache entry against the "
             "denotational least fixpoint Derivation!Ends; every explored case is replayed on the real combinators (root + every memoised "
             "nonterminal at every position), the real end positions are compared with the oracle and the recorded probe traces are "
             "validated event by event against the machine; random admissible grammars go the other way.",
        note=PMNOTE, technique="TLA+ explicit-stack machine + denotational oracle checked by TLC; TLC-generated cases replayed into the real combinators; probe traces of real runs validated by TLC (trace validation)", ref="5 (C01)"),
    "C02": dict(engine=PM,
        text="ReentryBound is an invariant of ParsleyMachine over families with direct, indirect and hidden left recursion (nullable prefixes), "
             "termination is checked as a liveness property on a small configuration; on the real code the probes count body activations of "
             "every memoised parser per position, stop a run that exceeds the bound, and TLC judges the bound on every recorded call event.",
        note=PMNOTE, technique="TLC invariant + liveness on the TLA+ machine; trace validation of real runs with the re-entry bound judged on every call event", ref="5 (C02)"),
    "C04": dict(engine=PM,
        text="ParsleyMachine!ApiOutcome models parsley.Parse; TLC checks Sentence <=> Derivation derives the whole input over the families; "
             "for every explored and random case the real Parse / Evaluate outcomes (node, error, span, panic) are recorded and judged by TLC.",
        note=PMNOTE, technique="TLC model checking of the API outcome + TLC-judged recorded API observations of the real code", ref="5 (C04)"),
    "C06": dict(engine=PM,
        text="The machine carries the complete error algebra (Seq's highest error, Any/Choice drop rule and fallback, Name, Optional passing errors, "
             "SetError, Parse's choice) and the set of failed expectations; TLC checks reported <= furthest failed attempt, = when all "
             "alternatives are named, and that the expectation failed there; on the real code the probes record every failed terminal / End / "
             "named parser of the root parse and TLC checks the reported text (incl. line:column) against them.",
        note=PMNOTE, technique="TLC invariant on the TLA+ machine's error registers + TLC-judged error texts of real failing parses against probe-recorded attempts", ref="5 (C06)"),
})

CHECKS.update({
    "C11": dict(engine="FileSet",
        text="FileSet.tla is a state machine of AddFile histories with the queries as operators; TLC explores every file set of the bounded "
             "families (empty files, CRLF, lone CR, CR CR LF, no trailing newline) and checks NoOverlap, Injective, RoundTrip, UnknownOutside; every "
             "state is exported with the expected answer of every query and replayed on fresh real file sets in two query orders; random larger "
             "file sets recorded from the real code are validated by FileSetTrace.",
        note="exhaustive only over contents <= 3-4 bytes of {a, LF, CR} and <= 3 files, and one file <= 4-5 bytes with the two bytes of a multi-byte rune; random sets up to 8 files x 300 bytes",
        technique="TLA+ state machine of the file set + TLC exhaustive export replayed into the real FileSet/File + TLC trace validation of recorded real file sets", ref="5 (C11)"),
})

CHECKS.update({
    "C09": dict(engine="Reader",
        text="Reader.tla gives the byte-level meaning of every reader primitive (UTF-8 decoding, word boundary, whitespace modes, custom functions; the "
             "regexp primitives relative to Go's regexp) and is a cursor machine whose invariants are the bounds clause; TLC exports every (content, base, "
             "position) of bounded families with the expected result of every primitive, the harness replays them on real readers placed at that base; "
             "random contents (any bytes, CRLF, multi-byte and invalid runes) are recorded and validated by ReaderTrace.",
        note="exhaustive over contents <= 3-5 bytes of a class-complete alphabet; the regexp engine is delegated to Go's regexp (computed by the harness independently of parsley)",
        technique="TLA+ byte-level specification + cursor machine checked by TLC; exported cases replayed into the real Reader; TLC trace validation of recorded real calls", ref="5 (C09)"),
    "C10": dict(engine="Trim",
        text="Trim.tla states the whitespace modes as the property does; TrimMC runs the LeftTrim/RightTrim actions of ParsleyMachine on every (gap strings, mode "
             "assignment) of bounded token sequences and TLC checks machine = property; every case is replayed on the real trims (outcome, error kind and "
             "position, node spans, values, error text), the probe traces are validated against the machine, and random long sequences are judged by TrimTrace.",
        note="token sequences that match the grammar (only whitespace varies); exhaustive for 1 token with gaps <= 2-3 and 2-3 tokens with short gaps",
        technique="TLA+ property statement vs TLA+ machine (TLC refinement check) + replay of TLC cases into real trims + TLC-judged recorded outcomes", ref="5 (C10)"),
})

CHECKS.update({
    "C03": dict(engine=PM,
        text="Model: for left-recursion-free families with Memoize around the nonterminals and around all / alternating subsets of the other nodes, TLC checks "
             "AtMostOnce (body runs per position) in every state and Transparent at the end of a two-phase behaviour (memoised run, then the same asks on the "
             "grammar with every Memoize removed). Code: memoised build, plain build and memoised build again on a fresh context; C03Trace compares ordered "
             "full trees, returned errors, furthest-error position, call counts and body runs; the memoised runs are trace-validated against the machine.",
        note=PMNOTE, technique="TLC invariant + two-phase behaviour on the TLA+ machine; TLC-judged triple observations (memoised / plain / repeated) of the real code; trace validation", ref="5 (C03)"),
    "C07": dict(engine=PM,
        text="Specification values are mathematical values (CacheMonotoneMC on the model); on the real code the harness keeps every node / list any probe has seen "
             "returned with its rendering at that moment, re-renders all of them after every top-level call and at the end, and asks every memoised parser "
             "twice more; any difference becomes a 'mutation' line that ParsleyTrace has no action for. Families biased toward sharing (groups consumed by "
             "several appending parents; one memoised result used trimmed and untrimmed).",
        note=PMNOTE + "; one known finding (RightTrim moves the end of its operand's node in place) is listed in known_findings.json and matched by shape, any other mutation is a violation",
        technique="value semantics in the TLA+ machine + re-observation of every returned result on real runs, judged by the trace specification", ref="5 (C07)"),
    "C13": dict(engine="TreePass",
        text="TreePass.tla: explicit-stack Walk machine (invariants: visited is a prefix of the post-order, each node once, children first, stop at once) and recursive "
             "definitions of the event logs of StaticCheck / Transform / Evaluate; TLC enumerates every tree shape up to 5-6 nodes (with / without a NodeList root, every "
             "stop point) and every labelling up to 3-4 nodes with every injected failure; replayed on real ast nodes with recording interpreters; random trees up to "
             "200 nodes judged by TreePassTrace.",
        note="exhaustive up to 5-6 nodes (shapes) / 3-4 nodes (labellings); Transform / Evaluate on single trees",
        technique="TLA+ Walk machine + recursive pass definitions, TLC exhaustive export replayed on real ast nodes, TLC-judged logs of random large trees", ref="5 (C13)"),
})

CHECKS.update({
    "C17": dict(engine=PM,
        text="C17MC runs ParsleyMachine on the unambiguous families of the property (plus a two-closer bracket family), each on inputs of its language and on inputs outside it (unclosed nest, dangling operator / separator, foreign last byte), for n <= 32-64 and its call counter must equal the real Context.CallCount() for "
             "the same grammar and input (binding); the real combinators are measured twice per (family, n) for n up to 512-1024, one cold process per family, and C17Trace (TLC) checks the "
             "doubling predicate calls(2n) <= 16 calls(n), determinism and acceptance on the measured table.",
        note="one input shape per family and size; the bound is the doubling test of the property, not an asymptotic proof; a run that exceeds 16x the calls of the half size is stopped and judged on the count reached",
        technique="TLA+ machine call counter bound to real call counts + TLC-judged doubling predicate on the measured table", ref="5 (C17)"),
})

CHECKS.update({
    "C05": dict(engine="Arith",
        text="Arith.tla is a byte-level recursive-descent reference evaluator of the expr/term/factor grammar (left-associative, precedence, truncating division, first "
             "division by zero in evaluation order at the operator's offset, well-formedness recogniser); TLC exports every token sequence up to 3-5 tokens rendered "
             "with whitespace patterns with the prescribed outcome, replayed through parsley.Evaluate on the real memoised left-recursive grammar; random expressions "
             "up to ~400 bytes with whitespace/newlines and ill-formed mutations are judged by ArithTrace (value, 'division by zero at f:line:col', rejection).",
        note="values inside +-10^6 (TLC integers); leading-zero literals (octal/hex) outside the modelled domain; the grammar is built once and reused",
        technique="TLA+ reference evaluator: TLC-exported cases replayed into the real grammar + TLC-judged results of random expressions", ref="5 (C05)"),
    "C12": dict(engine=PM,
        text="Model: ParsleyMachine explored at base 1 and base 6, paired outcomes judged by C12Trace (positions shifted, same call count), and the real code replayed "
             "at base 6 against the machine. Code: JSON example, arithmetic grammar, trimmed token sequences, every literal parser and random left-recursive grammars, "
             "each input parsed alone and after 1-3 arbitrary preceding files with the same parser object; C12Trace requires node and error positions shifted by "
             "exactly the base difference and trees, values, messages, rendered line:column and call counts unchanged.",
        note="bases up to ~120; workloads as listed in the property",
        technique="TLC-judged shift relation on paired runs of the TLA+ machine and on paired observations of the real code; trace validation at a non-trivial base", ref="5 (C12)"),
})

CHECKS.update({
    "C08": dict(engine="Literals",
        text="Literals.tla is a byte-level lexical specification of the eleven literal parsers (longest literal of the documented syntax, error position and kind, escape "
             "decoding to code points and UTF-8, totality outside the well-formed domain); TLC enumerates for each parser every byte string up to 3-5 bytes over a "
             "class-complete alphabet x every offset with the prescribed outcome, replayed on the real parsers; random / near-literal byte strings (digit runs around 2^63, "
             "ill-escaped and unterminated strings, truncated runes, invalid UTF-8) are judged by LiteralsTrace.",
        note="numeric / duration values and range decisions delegated to strconv / time, the regexp parser to Go's regexp (computed by the harness from the consumed bytes); "
             "raw line break inside a double-quoted string after an escape: totality only",
        technique="TLA+ lexical specification: TLC-exported exhaustive cases replayed into the real parsers + TLC-judged outcomes of random inputs", ref="5 (C08)"),
    "C16": dict(engine="JsonDoc",
        text="JsonDoc.tla is a document algebra: abstract value -> token rendering with a whitespace choice per gap -> optional corruption -> class -> obligation. TLC "
             "exports every document of a bounded family (all scalars of the table alone and in arrays, containers up to depth 2, whitespace patterns, every applicable "
             "corruption); random documents up to depth 6 - with scalars given by their source text, which the specification classifies by the syntax rules of the supported subset (LitClass) - are proposed by the harness and rendered / classified by the specification; the example parser and "
             "encoding/json are run on each text and JsonDocTrace checks the obligation of the document's class.",
        note="the example parser is a black box; scalar equality is encoding/json's (UseNumber); documents up to ~2 kB",
        technique="TLA+ document algebra with TLC as the only renderer/classifier + differential observations against encoding/json judged by TLC", ref="5 (C16)"),
})

CHECKS.update({
    "C14": dict(engine="Concurrent",
        text="Concurrent.tla states the contract (N independent machines; no location outside a run's own state with a plain write and another process' access) over the "
             "table of shared locations that the current sources write, extracted statically (package-level variables, variables captured by returned parser closures); "
             "the real code runs free under the Go race detector (8 goroutines x success/failure inputs on shared JSON / arithmetic / left-recursive graphs plus "
             "concurrent construction) and gated (deterministic random schedules at probe granularity); C14Trace requires every goroutine's observations to equal "
             "its solo observations and has no action for a race report.",
        note="memory-level race detection delegated to the Go race detector (-race build of the harness); gated schedules random, not exhaustive; static suspects are informational",
        technique="TLA+ interleaving contract over statically extracted shared locations + race-detector runs and deterministic gated schedules judged by a TLA+ trace spec (solo-equality)", ref="5 (C14)"),
})

NOT_YET = {}

ENGINES = [
    dict(name="Concurrent", path="spec/Concurrent.tla", serves_properties=["C14"], kind_free_text="interleaving contract over shared locations (tools/sharedvars); C14Trace"),
    dict(name="Literals", path="spec/Literals.tla", serves_properties=["C08"], kind_free_text="byte-level lexical specification; LiteralsMC (export), LiteralsTrace"),
    dict(name="JsonDoc", path="spec/JsonDoc.tla", serves_properties=["C16"], kind_free_text="JSON document algebra; JsonDocMC / JsonDocRender (rendering), JsonDocTrace"),
    dict(name="Arith", path="spec/Arith.tla", serves_properties=["C05"], kind_free_text="byte-level reference evaluator; ArithMC (export), ArithTrace"),
    dict(name="TreePass", path="spec/TreePass.tla", serves_properties=["C13"], kind_free_text="Walk machine + pass definitions; TreePassMC (export), TreePassTrace"),
    dict(name="Reader", path="spec/Reader.tla", serves_properties=["C09"], kind_free_text="byte-level reader specification + cursor machine; ReaderMC, ReaderTrace"),
    dict(name="Trim", path="spec/Trim.tla", serves_properties=["C10"], kind_free_text="whitespace-mode property statement; TrimMC (machine vs property), TrimTrace"),
    dict(name="FileSet", path="spec/FileSet.tla", serves_properties=["C11"], kind_free_text="TLA+ file-set machine; FileSetMC (export), FileSetTrace"),
    dict(name="ParsleyMachine", path="spec/ParsleyMachine.tla", serves_properties=["C01", "C02", "C03", "C04", "C06", "C07", "C12", "C17"],
         kind_free_text="TLA+ explicit-stack machine of the parsing algorithm; Derivation.tla (denotational oracle), Grammar.tla (families), "
                        "ParsleyMC (exhaustive exploration + export), ParsleyTrace (trace validation / judge)"),
    dict(name="IntData", path="spec/IntData.tla", serves_properties=["C15"],
         kind_free_text="TLA+ heap of immutable set/map values; IntDataMC (exhaustive + export), IntDataTrace (trace validation)"),
]


def build():
    ids = ["C%02d" % i for i in range(1, 18)]
    checks = []
    for pid in ids:
        c = CHECKS.get(pid)
        if not c:
            continue
        checks.append({
            "property_id": pid,
            "quick_cmd": "./check %s quick" % pid,
            "thorough_cmd": "./check %s thorough" % pid,
            "evidence_file": "evidence/%s.json" % pid,
            "replay_cmd_template": "./check %s --replay {path}" % pid,
            "engine": c["engine"],
            "level_claimed": {"category": c.get("level", "model_checking"), "text": c["text"], "design_ref": "DESIGN.md section " + c["ref"]},
            "level_note": c["note"],
            "technique": c["technique"],
        })
    na = [{"property_id": pid, "reason": NOT_YET.get(pid, "check not built yet in this round; the specification for it is planned in DESIGN.md section 5")}
          for pid in ids if pid not in CHECKS]
    m = {
        "version": 1,
        "setup_cmd": "./check setup",
        "hooks": {
            "guard": "verif",
            "enable": "go build -tags verif (the harness in /verif/harness is built with the tag; probes use the exported API, no guarded source is needed)",
            "baseline_off_cmd": "cd /repo && GOFLAGS=-mod=mod go test -vet=off -count=1 ./...",
            "source_commits": [],
            "add_only": True,
        },
        "engines": ENGINES,
        "checks": checks,
        "notes": "Every check: TLA+ specification in /verif/spec checked by TLC, bound to /repo by replaying TLC-generated cases "
                 "into the real code and by validating traces recorded from the real code (see DESIGN.md). "
                 "known_findings.json lists fixed and known defects.",
        "not_applicable": na,
    }
    with open(os.path.join(ROOT, "MANIFEST.json"), "w") as f:
        json.dump(m, f, indent=1)
    return m


if __name__ == "__main__":
    m = build()
    print("MANIFEST.json: %d checks, %d not claimed" % (len(m["checks"]), len(m["not_applicable"])))
