"""./check setup : offline setup after a fresh restore - parse every specification with SANY and
build the conformance harness once against /repo (warms the Go build cache)."""
import os
import sys
from . import core


def main():
    os.makedirs(os.path.join(core.WORK, "run"), exist_ok=True)
    mods, bad = core.sany_all()
    for m, out in bad:
        print("SANY failed for %s:\n%s" % (m, out))
    print("setup: %d specification modules parsed, %d failed" % (len(mods), len(bad)))
    r = core.Run("SETUP", "quick", 0)
    try:
        r.pvh_bin()
        print("setup: harness builds against %s" % core.REPO)
    except core.Inconclusive as e:
        print("setup: %s" % e)
        return 1
    finally:
        r.cleanup()
    return 1 if bad else 0
