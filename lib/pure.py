"""The two conformance directions for components whose specification IS the property
(FileSet, Reader, Trim, TreePass, Arith, Literals, JsonDoc, IntData):
  model -> code : TLC explores / enumerates the specification and prints every case with the outcome it
                  expects; the Go harness replays the cases on the real code and reports mismatches
  code -> model : the Go harness runs the real code on generated cases and writes what it observed; the
                  trace specification accepts a line only if the specification gives the same outcome"""
import json

from . import core


def model_to_code(r, module, cfg_text, component, tag, workers=None, timeout=1500, count=True, extra_kw=None, must_export=True, sort_key=None):
    g = r.tlc(module, cfg_text=cfg_text, workers=workers or core.NCPU, timeout=timeout, count=count)
    if not g.ok:
        raise core.Inconclusive("%s exploration failed: %r\n%s" % (module, g, core.tail(g.out_path, 30)))
    if must_export and not g.prints:
        raise core.Inconclusive("%s exported no case" % module)
    exp = r.path("cases-%s.ndjson" % tag)
    if sort_key:
        g.prints.sort(key=sort_key)
    core.write_ndjson(exp, g.prints)
    rep = r.path("replay-%s.json" % tag)
    kw = {"in": exp, "out": rep}
    kw.update(extra_kw or {})
    r.pvh(component, "replay", **kw)
    res = json.load(open(rep))
    r.evaluations += res.get("cases", 0)
    r.nontrivial += res.get("nontrivial", res.get("cases", 0))
    for s in (res.get("samples") or [])[:2]:
        if len(r.samples) < 4:
            r.samples.append({"direction": "model->code (%s)" % tag, "case": s})
    for m in res.get("mismatches") or []:
        case = dict(m)
        case["kind"] = "replay"
        case["component"] = component
        case["origin"] = "%s %s" % (module, tag)
        r.violation(case, m.get("what") or ("real code differs from %s: got %s want %s" % (module, json.dumps(m.get("got"))[:200], json.dumps(m.get("want"))[:200])))
    res["states"] = g.distinct
    return res


def code_to_model(r, component, module, cfg, chunks, gen_kw, begin_pred, describe=None, timeout=1500, mode="gen", env=None, group_key=None):
    """generate `chunks` trace files with the harness, validate them in parallel.
    begin_pred(row) -> True for the first line of a case."""
    files = []
    infos = []
    for c in range(chunks):
        tr = r.path("%s-trace-%d-%d.ndjson" % (component, r._k, c))
        kw = dict(gen_kw)
        kw["seed"] = r.seed * 1009 + c + gen_kw.get("seed", 0)
        kw["out"] = tr
        rc, so, se = r.pvh(component, mode, **kw)
        try:
            infos.append(json.loads(so.strip().splitlines()[-1]))
        except (ValueError, IndexError):
            infos.append({})
        files.append(tr)
    e = {"TRACE": None}
    jobs = []
    for f in files:
        ee = dict(env or {})
        ee["TRACE"] = f
        jobs.append(dict(module=module, cfg=cfg, workers=1, env=ee, timeout=timeout))
    outs = r.tlc_parallel(jobs)
    accepted = 0
    for f, o in zip(files, outs):
        rows = core.read_ndjson(f)
        if o.ok:
            n = sum(1 for x in rows if begin_pred(x))
            accepted += n
            r.traces += n
            r.evaluations += len(rows)
            if len(r.samples) < 6 and rows:
                r.samples.append({"direction": "code->model (%s)" % component, "line": describe(rows) if describe else rows[min(1, len(rows) - 1)]})
        elif o.rejected_line:
            k = min(o.rejected_line, len(rows)) - 1
            b = max([i for i in range(k + 1) if begin_pred(rows[i])] or [0])
            if group_key:
                # earlier inputs that ran on the same parser object belong to the counterexample (state left behind)
                while b > 0 and k - b < 4 and group_key(rows[b - 1]) == group_key(rows[k]):
                    b -= 1
            case = {"kind": "trace", "component": component, "lines": rows[b:k + 1], "origin": "random seed=%d" % r.seed}
            r.violation(case, "real observation rejected by %s at line %d: %s" % (module, k + 1, json.dumps(rows[k])[:400]))
        else:
            raise core.Inconclusive("%s validation did not finish: %r\n%s" % (module, o, core.tail(o.out_path, 30)))
    return {"files": len(files), "accepted_cases": accepted, "gen": infos}


def replay_case(r, case, module, cfg, component):
    """--replay for both kinds of recorded violation"""
    if case.get("kind") == "trace":
        # re-run the recorded inputs on the current tree: the harness' "rerun" mode re-executes the inputs of the lines
        inp = r.path("rerun-in.ndjson")
        core.write_ndjson(inp, case["lines"])
        tr = r.path("rerun-trace.ndjson")
        r.pvh(component, "rerun", **{"in": inp, "out": tr})
        o = r.tlc(module, cfg=cfg, workers=1, env={"TRACE": tr}, timeout=600)
        if o.ok:
            return None
        if o.rejected_line:
            return "rejected at line %d" % o.rejected_line
        raise core.Inconclusive("replay did not finish: %r" % o)
    # model->code mismatch: replay the single case with its recorded expectation
    inp = r.path("one.ndjson")
    core.write_ndjson(inp, ([case["prev"]] if case.get("prev") else []) + [case["case"]])
    rep = r.path("one.json")
    r.pvh(component, "replay", **{"in": inp, "out": rep})
    res = json.load(open(rep))
    if res.get("mismatches"):
        m = res["mismatches"][0]
        return m.get("what") or "got %s want %s" % (json.dumps(m.get("got"))[:200], json.dumps(m.get("want"))[:200])
    return None
