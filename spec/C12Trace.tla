------------------------------ MODULE C12Trace ------------------------------
(* C12: parsing is invariant under the file's placement in a file set.  One line = the same content parsed (a) as   *)
(* the only file of a file set and (b) after k arbitrary preceding files, with the same parser object:              *)
(*   {"wl":workload,"d":base_b - base_a,"a":obs,"b":obs}                                                            *)
(*   obs = {"ok":bool,"trees":[tree..],"err":[pos,kind,msg]|[],"text":api error text,"val":rendered value,            *)
(*          "calls":Context.CallCount(),"cp":[..]}       tree = <<token, start, end, value, <<children>>>>              *)
(* Relative to (a), every node position and error position of (b) is shifted by exactly d; trees, values, messages,  *)
(* rendered line:column locations and the amount of work are unchanged.                                              *)
(* The same relation is applied to pairs of runs of ParsleyMachine exported by ParsleyMC at two bases (wl = "model"). *)
EXTENDS Integers, Sequences, FiniteSets, TLC, Json, IOUtils

Trace == ndJsonDeserialize(IOEnv.TRACE)
VARIABLE l
ASSUME TLCSet(42, 0)
Ev == Trace[l]

RECURSIVE ShiftTree(_, _)
ShiftTree(t, d) == <<t[1], t[2] + d, t[3] + d, t[4], [i \in 1..Len(t[5]) |-> ShiftTree(t[5][i], d)]>>
ShiftErr(e, d) == IF Len(e) = 0 THEN e ELSE <<e[1] + d, e[2], e[3]>>

Shifted(a, b, d) ==
  /\ a.ok = b.ok
  /\ b.trees = [i \in 1..Len(a.trees) |-> ShiftTree(a.trees[i], d)]      \* same trees and values, every position + d
  /\ b.err = ShiftErr(a.err, d)                                           \* same error, position + d
  /\ b.text = a.text                                                      \* same message, same rendered line:column
  /\ b.val = a.val
  /\ b.calls = a.calls                                                    \* same amount of work (curtailment sees the same remaining length)

LineOK == /\ "panic" \notin DOMAIN Ev.a /\ "panic" \notin DOMAIN Ev.b
          /\ IF Shifted(Ev.a, Ev.b, Ev.d) THEN TRUE ELSE Print(<<"C12 placement changes the parse: line", l, Ev.wl, "shift", Ev.d>>, FALSE)
TraceInit == l = 1
TraceNext == l <= Len(Trace) /\ l' = l + 1 /\ LineOK
Hwm == TLCSet(42, IF l > TLCGet(42) THEN l ELSE TLCGet(42))
Accepted == IF TLCGet(42) = Len(Trace) + 1 THEN TRUE ELSE Print(<<"REJECTED at line", TLCGet(42)>>, FALSE)
=============================================================================
