INIT Init
NEXT Next
INVARIANTS Export
CHECK_DEADLOCK FALSE
