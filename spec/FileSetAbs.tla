---------------------------- MODULE FileSetAbs ----------------------------
(* The positional skeleton of FileSet.tla with file contents abstracted to their normalised length: file i owns    *)
(* the global positions base[i] .. base[i] + len[i]; AddFile(n) places a file of length n at `next`.                *)
(* IndInv is an INDUCTIVE invariant (checked by Apalache for files of ANY length and ANY number of files):          *)
(* it implies NoOverlap, Injective and NextAbove of FileSet.tla without any bound.                                   *)
EXTENDS Integers, Sequences

VARIABLES
  \* @type: Seq({base: Int, len: Int});
  files,
  \* @type: Int;
  next

Init == files = <<>> /\ next = 1
DoAdd(n) == /\ files' = Append(files, [base |-> next, len |-> n])
            /\ next' = next + n + 1
AddFile == \E n \in Nat : DoAdd(n)
Next == AddFile

IndInv ==
  /\ next >= 1
  /\ \A i \in DOMAIN files : files[i].base >= 1 /\ files[i].len >= 0 /\ files[i].base + files[i].len < next
  /\ \A i, j \in DOMAIN files : i < j => files[i].base + files[i].len < files[j].base
\* the properties of C11 that concern positions
NoOverlap == \A i, j \in DOMAIN files : i # j =>
                 (files[i].base + files[i].len < files[j].base \/ files[j].base + files[j].len < files[i].base)
Injective == \A i, j \in DOMAIN files : \A a, b \in Int :
                 (0 <= a /\ a <= files[i].len /\ 0 <= b /\ b <= files[j].len /\ files[i].base + a = files[j].base + b) => (i = j /\ a = b)
NextAbove == \A i \in DOMAIN files : files[i].base + files[i].len < next
Safe == NoOverlap /\ NextAbove
=============================================================================
