---------------------------- MODULE JsonDocTrace ----------------------------
(* Judge for C16: evaluations of the example JSON parser and of encoding/json on recorded documents.                  *)
(*  {"v":abstract value,"pat":[..],"cor":[kind,k],"text":"...",                                                       *)
(*   "pok":bool,"perr":bool,"jok":bool,"agree":bool,"skel":"...","panic":bool}                                         *)
(* The document is re-rendered from its abstract description by the specification; a rendering that differs from the   *)
(* logged text is an error of the HARNESS (reported as such), not of the parser.                                       *)
EXTENDS JsonDoc, Json, IOUtils
Trace == ndJsonDeserialize(IOEnv.TRACE)
VARIABLE l
ASSUME TLCSet(42, 0)
Ev == Trace[l]

LineOK ==
  LET ts == DocTokens(Ev.v, Ev.pat)
      cls == DocClass(Ev.v, Ev.pat, Ev.cor)
  IN /\ IF Applicable(Ev.v, ts, Ev.cor) /\ Text(Corrupt(ts, Ev.cor)) = Ev.text THEN TRUE
        ELSE Print(<<"HARNESS rendering differs from the specification: line", l>>, FALSE)
     /\ IF Required(cls, Ev.v, Ev) THEN TRUE
        ELSE Print(<<"C16 requirement of class", cls, "violated: line", l>>, FALSE)
TraceInit == l = 1
TraceNext == l <= Len(Trace) /\ l' = l + 1 /\ LineOK
Hwm == TLCSet(42, IF l > TLCGet(42) THEN l ELSE TLCGet(42))
Accepted == IF TLCGet(42) = Len(Trace) + 1 THEN TRUE ELSE Print(<<"REJECTED at line", TLCGet(42)>>, FALSE)
=============================================================================
