---------------------------- MODULE LiteralsTrace ----------------------------
(* Judge for C08: outcomes of the real literal parsers on recorded (random, long, ill-formed) inputs.               *)
(*  {"p":parser,"d":[bytes],"off":o,"inrange":bool,"rx":n,                                                          *)
(*   "k":"node"|"err","e":end|pos,"nf":bool,"val":[bytes],"start":s,"valueOK":bool}   (cursors 0-based)             *)
EXTENDS Literals, Json, IOUtils
Trace == ndJsonDeserialize(IOEnv.TRACE)
VARIABLE l
ASSUME TLCSet(42, 0)
Ev == Trace[l]
Empty == {}
WordAB == <<97, 98>>

Spec(p, d, off) ==
  CASE p = "integer" -> [r |-> LexInteger(d, off, Ev.inrange), strict |-> TRUE, hasval |-> FALSE]
    [] p = "float" -> [r |-> LexFloat(d, off, Ev.inrange), strict |-> TRUE, hasval |-> FALSE]
    [] p = "string" -> LET x == LexString(d, off, FALSE) IN [r |-> x.r, strict |-> x.strict, hasval |-> TRUE]
    [] p = "stringbq" -> LET x == LexString(d, off, TRUE) IN [r |-> x.r, strict |-> x.strict, hasval |-> TRUE]
    [] p = "char" -> [r |-> LexChar(d, off), strict |-> TRUE, hasval |-> TRUE]
    [] p = "bool" -> [r |-> LexBool(d, off, <<97>>, <<98>>), strict |-> TRUE, hasval |-> TRUE]
    [] p = "nil" -> [r |-> LexWord(d, off, WordAB), strict |-> TRUE, hasval |-> FALSE]
    [] p = "word" -> [r |-> LexWord(d, off, WordAB), strict |-> TRUE, hasval |-> FALSE]
    [] p = "op" -> [r |-> LexOp(d, off, <<97, 97>>), strict |-> TRUE, hasval |-> FALSE]
    [] p = "rune" -> [r |-> LexRune(d, off, 233), strict |-> TRUE, hasval |-> FALSE]
    [] p = "duration" -> [r |-> LexDuration(d, off, Ev.inrange), strict |-> TRUE, hasval |-> FALSE]
    [] p \in {"regexp", "regexp2", "regexp3"} -> [r |-> LexRegexp(d, off, Ev.rx), strict |-> TRUE, hasval |-> FALSE]

LineOK ==
  LET s == Spec(Ev.p, Ev.d, Ev.off) IN
  /\ "panic" \notin DOMAIN Ev                                                  \* total: never panics
  /\ Total(Ev.d, Ev.off, IF Ev.k = "node" THEN [k |-> "node", end |-> Ev.e] ELSE [k |-> "err", pos |-> Ev.e])
  /\ Ev.k = "node" => Ev.start = Ev.off /\ Ev.valueOK                           \* starts at the offset; delegated value check
  /\ s.strict =>
       /\ Ev.k = s.r.k
       /\ IF s.r.k = "node" THEN Ev.e = s.r.end /\ (s.hasval => Ev.val = s.r.val)     \* longest literal, decoded value
          ELSE Ev.e = s.r.pos /\ Ev.nf = s.r.nf
TraceInit == l = 1 /\ data = <<>> /\ base = 0 /\ pos = 0
TraceNext == l <= Len(Trace) /\ l' = l + 1 /\ LineOK /\ UNCHANGED vars
Hwm == TLCSet(42, IF l > TLCGet(42) THEN l ELSE TLCGet(42))
Accepted == IF TLCGet(42) = Len(Trace) + 1 THEN TRUE ELSE Print(<<"REJECTED at line", TLCGet(42)>>, FALSE)
=============================================================================
