-------------------------- MODULE IntDataTrace --------------------------
(* Trace validation for C15: histories recorded from the real data.IntSet / *)
(* data.IntMap are replayed through the actions of IntData.  Each line is   *)
(* one operation with its arguments and the observation, through the        *)
(* exported API, of EVERY value produced so far in that history (so a value  *)
(* that is changed in place by a later operation is rejected at that line).  *)
(* Several histories are concatenated; a "reset" line starts a new one.      *)
EXTENDS IntData, Json, IOUtils

Trace == ndJsonDeserialize(IOEnv.TRACE)

VARIABLE l
NoPrefix == <<>>
tvars == <<vars, l>>

ASSUME TLCSet(42, 0)

Ev == Trace[l]

\* the observation the real code gave for the i-th value must be the model's
ObsMatches(val, ob) ==
  /\ ob.t = val.t
  /\ ob.o = Observe(val)                       \* Each(): order, members, no duplicates
  /\ IF val.t = "set"
     THEN ob.n = Cardinality(val.v)            \* Len()
     ELSE /\ ob.n = Cardinality(DOMAIN val.v)  \* len(Keys())
          /\ ob.e = Observe(val)               \* Each(k, v), sorted by the harness
          /\ \A q \in 1..Len(ob.g) : ob.g[q][2] = GetOf(val, ob.g[q][1])   \* Get(k) for probe keys

AllMatch == /\ Len(Ev.obs) = Len(vals')
            /\ \A i \in 1..Len(vals') : ObsMatches(vals'[i], Ev.obs[i])

TraceInit == vals = <<>> /\ hist = <<>> /\ l = 1

TraceReset == /\ Ev.op = "reset"
              /\ vals' = <<>> /\ hist' = <<>>

TraceOp ==
  /\ CASE Ev.op = "NewIntSet" -> DoNewIntSet(Ev.args)
       [] Ev.op = "Insert"    -> DoInsert(Ev.a, Ev.args[1])
       [] Ev.op = "Union"     -> DoUnion(Ev.a, Ev.b)
       [] Ev.op = "NewIntMap" -> DoNewIntMap(MapOfFlat(Ev.args))
       [] Ev.op = "EmptyIntSet" -> DoEmptyIntSet
       [] Ev.op = "EmptyIntMap" -> DoEmptyIntMap
       [] Ev.op = "Inc"       -> DoInc(Ev.a, Ev.args[1])
       [] Ev.op = "Filter"    -> DoFilter(Ev.a, Ev.b)
       [] OTHER -> FALSE
  /\ AllMatch

TraceNext == /\ l <= Len(Trace)
             /\ l' = l + 1
             /\ (TraceReset \/ TraceOp)

TraceSpec == TraceInit /\ [][TraceNext]_tvars

Hwm == TLCSet(42, IF l > TLCGet(42) THEN l ELSE TLCGet(42))
Accepted == IF TLCGet(42) = Len(Trace) + 1 THEN TRUE
            ELSE Print(<<"REJECTED at line", TLCGet(42)>>, FALSE)
=============================================================================
