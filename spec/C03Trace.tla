------------------------------ MODULE C03Trace ------------------------------
(* Judge for C03 on observations of the real code.  One line = one (grammar, input): the memoised build, the same   *)
(* grammar with every Memoize removed, and the memoised build again on a fresh context, each with root + asks:       *)
(*   {"ev":"c03","G":..,"w":..,"B":..,"memo":[{n,p,res,err,cerr,calls,tr}..],"plain":[..],"memo2":[..],"maxbody":k}   *)
(* res = ordered shallow alternatives, tr = the full trees rendered by the harness, err = returned error,             *)
(* cerr = furthest error recorded in the context, maxbody = max number of times the body of one Memoize ran at one    *)
(* position during the memoised run.                                                                                 *)
EXTENDS Integers, Sequences, FiniteSets, TLC, Json, IOUtils

Trace == ndJsonDeserialize(IOEnv.TRACE)
VARIABLE l
ASSUME TLCSet(42, 0)
Ev == Trace[l]
D == INSTANCE Derivation

ErrPos(e) == IF Len(e) = 0 THEN 0 ELSE e[1]
\* Memoize changes nothing observable except the call count
Transparent(a, b) ==
  /\ Len(a) = Len(b)
  /\ \A i \in 1..Len(a) : /\ a[i].res = b[i].res /\ a[i].tr = b[i].tr      \* ordered list of results (full trees)
                          /\ a[i].err = b[i].err                           \* returned error (position, kind, text)
                          /\ ErrPos(a[i].cerr) = ErrPos(b[i].cerr)         \* position of the furthest recorded error
\* repeating the parse with a fresh context reproduces results, errors and call count
Deterministic(a, b) == a = b

LineOK ==
  /\ D!LRFree(Ev.G)                       \* the generator's claim, re-asserted
  /\ IF Transparent(Ev.memo, Ev.plain) THEN TRUE ELSE Print(<<"C03 memoised and plain runs differ: line", l>>, FALSE)
  /\ IF Deterministic(Ev.memo, Ev.memo2) THEN TRUE ELSE Print(<<"C03 repeated parse differs: line", l>>, FALSE)
  /\ IF Ev.maxbody <= 1 THEN TRUE ELSE Print(<<"C03 a memoised body ran more than once at one position: line", l, Ev.maxbody>>, FALSE)

TraceInit == l = 1
TraceNext == l <= Len(Trace) /\ l' = l + 1 /\ LineOK
Hwm == TLCSet(42, IF l > TLCGet(42) THEN l ELSE TLCGet(42))
Accepted == IF TLCGet(42) = Len(Trace) + 1 THEN TRUE ELSE Print(<<"REJECTED at line", TLCGet(42)>>, FALSE)
=============================================================================
