---------------------------- MODULE TreePassTrace ----------------------------
(* Judge for C13: event logs of the real tree passes on recorded (random, large) trees.                     *)
(* line: {"tree":[..],"list":b,"stopK":k,"failAt":f,"walk":{"log","stopped"},"check":..,"transform":..,"eval":..} *)
EXTENDS TreePass, Json, IOUtils

Trace == ndJsonDeserialize(IOEnv.TRACE)
VARIABLE l
ASSUME TLCSet(42, 0)
Ev == Trace[l]
Empty == {}

LineOK ==
  LET t == Ev.tree f == Ev.failAt IN
  /\ "panic" \notin DOMAIN Ev
  /\ Ev.walk.log = EmptyAs(t, WalkLog(t, Ev.list, Ev.stopK))
  /\ Ev.walk.stopped = WalkResult(t, Ev.list, Ev.stopK)
  /\ (~Ev.list /\ Ev.stopK = 0) =>
       LET tl == TransformLog(t, f, 1) el == EvalLog(t, f, 1) IN
       /\ Ev.check.log = CheckLog(t, f) /\ Ev.check.failed = CheckFails(t, f)
       /\ Ev.check.schemas = [n \in 1..Len(t) |-> FinalSchema(t, f, n)]
       /\ Ev.check2 = SecondCheck(t)
       /\ Ev.transform.log = tl[1] /\ Ev.transform.failed = tl[2]
       /\ Ev.transform.result = (IF tl[2] THEN "" ELSE RenderT(t, 1))
       /\ (Evaluable(t) => Ev.eval.log = el[1] /\ Ev.eval.failed = el[2])
       /\ (Evaluable(t) => Ev.eval2 = SecondEval(t))
       /\ LET a1 == ParseApiLog(t, f, 0) a2 == ParseApiLog(t, 0, f) IN
          /\ Ev.api.tlog1 = a1[1] /\ Ev.api.clog1 = a1[2] /\ Ev.api.failed1 = a1[3]
          /\ Ev.api.tlog2 = a2[1] /\ Ev.api.clog2 = a2[2] /\ Ev.api.failed2 = a2[3]

TraceInit == l = 1 /\ tree = <<>> /\ list = FALSE /\ stopK = 0 /\ todo = <<>> /\ visited = <<>> /\ result = "done"
TraceNext == l <= Len(Trace) /\ l' = l + 1 /\ LineOK /\ UNCHANGED vars
Hwm == TLCSet(42, IF l > TLCGet(42) THEN l ELSE TLCGet(42))
Accepted == IF TLCGet(42) = Len(Trace) + 1 THEN TRUE ELSE Print(<<"REJECTED at line", TLCGet(42)>>, FALSE)
=============================================================================
