-------------------------- MODULE ParsleyMachine --------------------------
(***************************************************************************)
(* The parsing algorithm of opsidian/parsley as an explicit-stack state     *)
(* machine: memoisation with a context-sensitive reuse rule, curtailment    *)
(* of left recursion by per-position counters, the Seq family, Any/Choice,  *)
(* Optional, Name (ReturnError), LeftTrim/RightTrim, the two error          *)
(* registers (returned error / furthest error in the context) and the call  *)
(* counter.  One step of the machine is one call or one return of a grammar *)
(* node, which is exactly one event of the probes the conformance harness   *)
(* wraps around every real parser (ParsleyTrace.tla).                       *)
(*                                                                          *)
(* A grammar G is a sequence of nodes [k, mode, kids, ch, name]:            *)
(*   k = "term"  one byte ch; name = text of its not-found error            *)
(*       "end" "empty"                                                      *)
(*       "any" "choice" (kids = alternatives) "opt" (kids[1])               *)
(*       "named"  parser.ReturnError(kids[1], NotFoundError(name))          *)
(*       "memo"   combinator.Memoize(kids[1]);  "pass" = the same node with *)
(*                the Memoize wrapper removed (C03)                         *)
(*       "seq"    mode of|try|foa|many|many1|sepby|sepby1; name # "" means  *)
(*                Sequence.Name(name)                                       *)
(*       "single" "suppress"  combinator.Single / SuppressError(kids[1])     *)
(*       "ltrim" "rtrim"  text.LeftTrim/RightTrim(kids[1], mode) with       *)
(*                mode none|spaces|nl|forcenl                               *)
(* Positions are global: B + cursor, B the base offset of the file.         *)
(*                                                                          *)
(* Values are shallow: a result is the ORDERED list of alternatives, an     *)
(* alternative is [t, s, e] (kind T/E/EOF/N, start, end).  Control flow of  *)
(* the real code depends on nothing else (order, ends, Empty de-duplication *)
(* and the EOF token), full trees live in Derivation.tla.                   *)
(*                                                                          *)
(* Named deviations (constants, FALSE = the repaired tree):                 *)
(*   PinnedSeqReset  seq.go reset the counters for every non-first          *)
(*                   alternative of an element (defect D2)                  *)
(*   PinnedAnyDrop   Any/Choice returned neither node nor error when all    *)
(*                   alternatives failed with not-found at the start (D3)   *)
(***************************************************************************)
EXTENDS Integers, Sequences, FiniteSets, TLC

CONSTANTS PinnedSeqReset, PinnedAnyDrop

VARIABLES G, w, B, stack, ret, cache, calls, cerr, done, runs, fails
vars == <<G, w, B, stack, ret, cache, calls, cerr, done, runs, fails>>

NoRet == [t |-> "none"]
NoErr == <<>>
\* k: "nf" parsley.NotFoundError, "ws" whitespace error, "o" anything else
Err(pos, k, msg) == [pos |-> pos, k |-> k, msg |-> msg]
IsNF(e) == e # NoErr /\ e.k = "nf"

Get(m, k) == IF k \in DOMAIN m THEN m[k] ELSE 0
Inc(m, k) == [x \in (DOMAIN m) \cup {k} |-> IF x = k THEN Get(m, k) + 1 ELSE m[x]]
Filter(m, ks) == [x \in (DOMAIN m) \cap ks |-> m[x]]
EmptyMap == [x \in {} |-> 0]

Remaining(pos) == Len(w) - (pos - B)          \* text.Reader.Remaining
Byte(pos) == w[pos - B + 1]                   \* defined for B <= pos < B + Len(w)
AtEOF(pos) == pos - B >= Len(w)

\* one: for a non-terminal node with exactly one child, that child (combinator.Single looks at it); <<>> otherwise
Leaf(s, e) == [t |-> "T", s |-> s, e |-> e, one |-> <<>>]
EmptyV(p) == [t |-> "E", s |-> p, e |-> p, one |-> <<>>]
EofV(p) == [t |-> "EOF", s |-> p, e |-> p, one |-> <<>>]
NT(ks) == [t |-> "N", s |-> ks[1].s, e |-> ks[Len(ks)].e, one |-> IF Len(ks) = 1 THEN <<ks[1]>> ELSE <<>>]
NT0(p) == [t |-> "N", s |-> p, e |-> p, one |-> <<>>]

\* ast.AppendNode / NodeList.Append: Empty nodes are de-duplicated, order is kept
RECURSIVE AppendAll(_, _)
AppendAll(l, vs) ==
  IF vs = <<>> THEN l
  ELSE LET v == Head(vs) IN
       IF v.t = "E" /\ \E i \in 1..Len(l) : l[i] = v THEN AppendAll(l, Tail(vs))
       ELSE AppendAll(Append(l, v), Tail(vs))

\* Context.SetError
SetErr(c, e) == IF e = NoErr THEN c ELSE IF c = NoErr \/ e.pos >= c.pos THEN e ELSE c

\* ---- whitespace (text.Reader.SkipWhitespaces) ----------------------------
IsWs(b) == b \in {32, 9, 10, 12}
IsNl(b) == b \in {10, 12}
RECURSIVE RunEnd(_)
RunEnd(pos) == IF ~AtEOF(pos) /\ IsWs(Byte(pos)) THEN RunEnd(pos + 1) ELSE pos
RECURSIVE FirstNl(_, _)
FirstNl(pos, end) == IF pos >= end THEN 0 ELSE IF IsNl(Byte(pos)) THEN pos ELSE FirstNl(pos + 1, end)
WsErrOf(pos, mode) ==
  LET end == RunEnd(pos)
      nl == FirstNl(pos, end)
  IN CASE mode = "none" /\ end > pos -> Err(pos, "ws", "whitespaces are not allowed")
       [] mode = "forcenl" /\ nl = 0 -> Err(end, "ws", "was expecting a new line")
       [] mode = "spaces" /\ nl > 0 -> Err(nl, "ws", "new line is not allowed")
       [] OTHER -> NoErr

\* ---- frames ---------------------------------------------------------------
Frame(n, pos, lrc) ==
  [n |-> n, pos |-> pos, lrc |-> lrc, i |-> 1, res |-> <<>>, cp |-> {}, err |-> NoErr, nfe |-> NoErr,
   st |-> 0, lv |-> <<>>, nodes |-> <<>>]

\* the outcome of running the top frame until its next call or its return
\*  cnt: ctx.RegisterCall()s made before the call; run: a Memoize body is entered
Call(f, c, pos, lrc, cnt) == [t |-> "call", f |-> f, c |-> c, pos |-> pos, lrc |-> lrc, cnt |-> cnt]
\*  set: error passed to ctx.SetError (NoErr = none); save: cache update
\*  att: an expectation that failed right here, <<position, message, "t" terminal/End | "n" name>>
RetX(res, cp, err, set, save) == [t |-> "ret", res |-> res, cp |-> cp, err |-> err, set |-> set, save |-> save, att |-> <<>>]
Ret(res, cp, err) == RetX(res, cp, err, NoErr, <<>>)
RetAtt(err, cp, kind) == [t |-> "ret", res |-> <<>>, cp |-> cp, err |-> err, set |-> NoErr, save |-> <<>>,
                          att |-> <<err.pos, err.msg, kind>>]

\* ---- Any / Choice error accumulation (any.go, choice.go) -------------------
\* keeps the error with the highest position; a not-found error at the combinator's own
\* position is only remembered as a fallback (the fix of D3)
AccErr(f, e2) ==
  IF e2 # NoErr /\ (f.err = NoErr \/ e2.pos >= f.err.pos)
  THEN IF e2.pos > f.pos \/ ~IsNF(e2) THEN [f EXCEPT !.err = e2] ELSE [f EXCEPT !.nfe = e2]
  ELSE f
FailErr(f) == IF f.err = NoErr /\ ~PinnedAnyDrop THEN f.nfe ELSE f.err

\* ---- the Seq family (seq.go) ------------------------------------------------
SeqAccErr(acc, e2) == IF e2 # NoErr /\ (acc = NoErr \/ e2.pos >= acc.pos) THEN e2 ELSE acc

Elem(n, d) ==  \* element parser at depth d (0-based), 0 if none
  LET g == G[n] IN
  CASE g.mode \in {"of", "try", "foa"} -> IF d < Len(g.kids) THEN g.kids[d + 1] ELSE 0
    [] g.mode \in {"many", "many1"} -> g.kids[1]
    [] OTHER -> g.kids[(d % 2) + 1]
LenCheck(n, d) ==
  LET g == G[n] l == Len(g.kids) IN
  CASE g.mode = "of" -> d = l
    [] g.mode = "try" -> d > 0 /\ d <= l
    [] g.mode = "foa" -> d = 1 \/ d = l
    [] g.mode = "many" -> TRUE
    [] g.mode = "many1" -> d > 0
    [] g.mode = "sepby" -> d = 0 \/ d % 2 = 1
    [] OTHER -> d % 2 = 1

Level(pos, lrc, mg) == [pos |-> pos, lrc |-> lrc, mg |-> mg, alts |-> <<>>, i |-> 0]

SeqFinish(f) ==
  LET g == G[f.n]
      e0 == f.err
  IN IF f.res = <<>>
     THEN IF e0 # NoErr /\ g.name # "" /\ e0.pos = f.pos /\ IsNF(e0)
          THEN RetAtt(Err(f.pos, "nf", g.name), f.cp, "n")
          ELSE Ret(<<>>, f.cp, e0)
     ELSE RetX(f.res, f.cp, NoErr, e0, <<>>)

RECURSIVE SeqEnter(_), SeqNil(_), SeqPop(_), SeqIter(_)
SeqEnter(f) ==                        \* sequence.parse(depth, ...): call the next element, if any
  LET d == Len(f.lv) - 1
      L == f.lv[Len(f.lv)]
      el == Elem(f.n, d)
  IN IF el # 0 THEN Call(f, el, L.pos, L.lrc, 1)
     ELSE SeqNil(f)
SeqNil(f) ==                          \* res == nil: the path is maximal; emit a result if lenCheck
  LET d == Len(f.lv) - 1
      L == f.lv[Len(f.lv)]
  IN IF LenCheck(f.n, d)
     THEN IF d > 0
          THEN LET f2 == [f EXCEPT !.res = AppendAll(@, <<NT(SubSeq(f.nodes, 1, d))>>)]
               IN IF f.nodes[d].t = "EOF" THEN SeqFinish(f2) ELSE SeqPop(f2)
          ELSE SeqPop([f EXCEPT !.res = AppendAll(@, <<NT0(L.pos)>>)])
     ELSE SeqPop(f)
SeqPop(f) ==                          \* return from parse(depth): continue the caller's loop
  IF Len(f.lv) = 1 THEN SeqFinish(f)
  ELSE LET lv2 == SubSeq(f.lv, 1, Len(f.lv) - 1)
           k == Len(lv2)
       IN SeqIter([f EXCEPT !.lv = [lv2 EXCEPT ![k].i = @ + 1]])
SeqIter(f) ==                         \* for i, node := range alternatives { parseNext(...) }
  LET k == Len(f.lv)
      L == f.lv[k]
      d == k - 1
  IN IF L.i <= Len(L.alts)
     THEN LET node == L.alts[L.i]
              reset == (PinnedSeqReset /\ L.i > 1) \/ node.e > L.pos
              nl == Level(node.e, IF reset THEN EmptyMap ELSE L.lrc, IF reset THEN FALSE ELSE L.mg)
          IN SeqEnter([f EXCEPT !.nodes = Append(SubSeq(f.nodes, 1, d), node),
                                !.lv = Append(f.lv, nl)])
     ELSE SeqPop(f)

SeqAbsorb(f, r) ==                    \* an element parser returned
  LET k == Len(f.lv)
      L == f.lv[k]
      f0 == [f EXCEPT !.err = SeqAccErr(@, r.err)]
      f1 == IF L.mg THEN [f0 EXCEPT !.cp = @ \cup r.cp] ELSE f0
  IN IF r.res # <<>>
     THEN SeqIter([f1 EXCEPT !.lv[k].alts = r.res, !.lv[k].i = 1])
     ELSE SeqNil(f1)

\* ---- RightTrim on a result list (ast.SetReaderPos with SkipWhitespaces) -----
\* every node's end moves past the run that follows it (an Empty node moves as a whole,
\* an EOF node is left alone); the whitespace error that counts is the one computed
\* LAST, i.e. for the last alternative that is not an EOF node
RTrimNode(v) ==
  CASE v.t = "EOF" -> v
    [] v.t = "E" -> EmptyV(RunEnd(v.e))
    [] OTHER -> [v EXCEPT !.e = RunEnd(v.e)]
RECURSIVE RTrimErr(_, _, _)
RTrimErr(res, i, mode) ==
  IF i = 0 THEN NoErr
  ELSE IF res[i].t = "EOF" THEN RTrimErr(res, i - 1, mode)
  ELSE WsErrOf(res[i].e, mode)

\* ---- one node ------------------------------------------------------------------
\* f: the top frame, r: NoRet when the frame is (re)entered from its caller, else the
\* triple its callee just returned
Run(f, r) ==
  LET g == G[f.n] IN
  CASE g.k = "term" ->
         IF ~AtEOF(f.pos) /\ Byte(f.pos) = g.ch THEN Ret(<<Leaf(f.pos, f.pos + 1)>>, {}, NoErr)
         ELSE RetAtt(Err(f.pos, "nf", g.name), {}, "t")
    [] g.k = "end" ->
         IF AtEOF(f.pos) THEN Ret(<<EofV(f.pos)>>, {}, NoErr)
         ELSE RetAtt(Err(f.pos, "o", "was expecting the end of input"), {}, "t")
    [] g.k = "empty" -> Ret(<<EmptyV(f.pos)>>, {}, NoErr)
    [] g.k = "any" ->
         LET f1 == IF r.t = "none" THEN f
                   ELSE AccErr([f EXCEPT !.res = AppendAll(@, r.res), !.cp = @ \cup r.cp, !.i = @ + 1], r.err)
         IN IF f1.i <= Len(g.kids) THEN Call(f1, g.kids[f1.i], f.pos, f.lrc, 1)
            ELSE IF f1.res = <<>> THEN Ret(<<>>, f1.cp, FailErr(f1))
            ELSE RetX(f1.res, f1.cp, NoErr, f1.err, <<>>)
    [] g.k = "choice" ->
         LET f1 == IF r.t = "none" THEN f
                   ELSE AccErr([f EXCEPT !.cp = @ \cup r.cp, !.i = @ + 1], r.err)
         IN IF r.t # "none" /\ r.res # <<>> THEN RetX(r.res, f1.cp, NoErr, f1.err, <<>>)
            ELSE IF f1.i <= Len(g.kids) THEN Call(f1, g.kids[f1.i], f.pos, f.lrc, 1)
            ELSE Ret(<<>>, f1.cp, FailErr(f1))
    [] g.k = "opt" ->
         IF r.t = "none" THEN Call(f, g.kids[1], f.pos, f.lrc, 0)
         ELSE Ret(AppendAll(r.res, <<EmptyV(f.pos)>>), r.cp, r.err)
    [] g.k = "named" ->   \* parser.ReturnError(p, NotFoundError(name))
         IF r.t = "none" THEN Call(f, g.kids[1], f.pos, f.lrc, 0)
         ELSE IF r.err # NoErr
              THEN IF r.err.pos = f.pos /\ IsNF(r.err) THEN RetAtt(Err(f.pos, "nf", g.name), r.cp, "n")
                   ELSE Ret(<<>>, r.cp, r.err)
              ELSE IF r.res = <<>> THEN RetAtt(Err(f.pos, "nf", g.name), r.cp, "n")
              ELSE Ret(r.res, r.cp, NoErr)
    [] g.k = "pass" ->    \* a Memoize wrapper that was stripped (C03)
         IF r.t = "none" THEN Call(f, g.kids[1], f.pos, f.lrc, 0)
         ELSE Ret(r.res, r.cp, r.err)
    [] g.k = "suppress" ->   \* combinator.SuppressError: the error is dropped
         IF r.t = "none" THEN Call(f, g.kids[1], f.pos, f.lrc, 0)
         ELSE Ret(r.res, r.cp, NoErr)
    [] g.k = "single" ->     \* combinator.Single: a lone non-terminal result with exactly one child is replaced by that child
         IF r.t = "none" THEN Call(f, g.kids[1], f.pos, f.lrc, 0)
         ELSE IF r.err # NoErr THEN Ret(<<>>, r.cp, r.err)
         ELSE IF Len(r.res) = 1 /\ r.res[1].t = "N" /\ r.res[1].one # <<>> THEN Ret(<<r.res[1].one[1]>>, r.cp, NoErr)
         ELSE Ret(r.res, r.cp, NoErr)
    [] g.k = "memo" ->
         IF r.t = "none"
         THEN LET key == <<f.n, f.pos>> IN
              IF key \in DOMAIN cache /\ \A k \in DOMAIN cache[key].lrc : cache[key].lrc[k] <= Get(f.lrc, k)
              THEN Ret(cache[key].res, cache[key].cp, cache[key].err)                     \* MemoHit
              ELSE IF Get(f.lrc, f.n) > Remaining(f.pos) + 1 THEN Ret(<<>>, {f.n}, NoErr) \* MemoCurtail
              ELSE Call([f EXCEPT !.st = 1], g.kids[1], f.pos, Inc(f.lrc, f.n), 0)        \* MemoEnter
         ELSE RetX(r.res, r.cp, r.err, NoErr,                                             \* MemoStore
                   <<<<f.n, f.pos>>, [lrc |-> Filter(f.lrc, r.cp), res |-> r.res, cp |-> r.cp, err |-> r.err]>>)
    [] g.k = "seq" ->
         IF r.t = "none" THEN SeqEnter([f EXCEPT !.lv = <<Level(f.pos, f.lrc, TRUE)>>])
         ELSE SeqAbsorb(f, r)
    [] g.k = "ltrim" ->
         LET p2 == RunEnd(f.pos)
             wsErr == WsErrOf(f.pos, g.mode)
         IN IF r.t = "none" THEN Call(f, g.kids[1], p2, f.lrc, 0)   \* same counters although the position moved
            ELSE IF r.err # NoErr
                 THEN IF wsErr # NoErr /\ r.err.pos > p2 THEN Ret(<<>>, {}, wsErr)
                      ELSE IF wsErr # NoErr /\ IsNF(r.err) THEN Ret(r.res, r.cp, Err(f.pos, "nf", r.err.msg))
                      ELSE Ret(r.res, r.cp, r.err)
                 ELSE IF wsErr # NoErr THEN Ret(<<>>, {}, wsErr)
                 ELSE Ret(r.res, r.cp, NoErr)
    [] g.k = "rtrim" ->
         IF r.t = "none" THEN Call(f, g.kids[1], f.pos, f.lrc, 0)
         ELSE IF r.err # NoErr
              THEN LET ep == RunEnd(r.err.pos)
                   IN Ret(r.res, r.cp, IF r.err.k # "ws" /\ ep > r.err.pos THEN [r.err EXCEPT !.pos = ep] ELSE r.err)
              ELSE IF r.res = <<>> THEN Ret(<<>>, r.cp, NoErr)
              ELSE LET wsErr == RTrimErr(r.res, Len(r.res), g.mode)
                   IN IF wsErr # NoErr THEN Ret(<<>>, {}, wsErr)
                      ELSE Ret([i \in 1..Len(r.res) |-> RTrimNode(r.res[i])], r.cp, NoErr)

\* ---- the machine ------------------------------------------------------------------
InitWith(g, ww, base, root) ==
  /\ G = g
  /\ w = ww
  /\ B = base
  /\ stack = <<Frame(root, base, EmptyMap)>>
  /\ ret = NoRet
  /\ cache = [x \in {} |-> 0]
  /\ calls = 0
  /\ cerr = NoErr
  /\ done = FALSE
  /\ runs = [x \in {} |-> 0]
  /\ fails = {}

Step ==
  /\ ~done
  /\ stack # <<>>
  /\ LET top == stack[Len(stack)]
         o == Run(top, ret)
     IN IF o.t = "call"
        THEN /\ stack' = Append([stack EXCEPT ![Len(stack)] = o.f], Frame(o.c, o.pos, o.lrc))
             /\ ret' = NoRet
             /\ calls' = calls + o.cnt
             /\ cache' = cache
             /\ cerr' = cerr
             /\ done' = FALSE
             /\ fails' = fails
             /\ runs' = IF G[top.n].k = "memo"
                        THEN LET key == <<top.n, top.pos>> IN
                             [x \in (DOMAIN runs) \cup {key} |-> IF x = key THEN Get(runs, key) + 1 ELSE runs[x]]
                        ELSE runs
        ELSE /\ stack' = SubSeq(stack, 1, Len(stack) - 1)
             /\ ret' = [t |-> "ret", res |-> o.res, cp |-> o.cp, err |-> o.err]
             /\ calls' = calls
             /\ cerr' = SetErr(cerr, o.set)
             /\ cache' = IF o.save = <<>> THEN cache
                         ELSE [x \in (DOMAIN cache) \cup {o.save[1]} |-> IF x = o.save[1] THEN o.save[2] ELSE cache[x]]
             /\ done' = (Len(stack) = 1)
             /\ runs' = runs
             /\ fails' = IF o.att = <<>> THEN fails ELSE fails \cup {o.att}
  /\ UNCHANGED <<G, w, B>>

\* a further top-level request on the same (warm) context: parser n at position p with an
\* empty left-recursion context - the public-API reading of "parsing a nonterminal at a position"
Ask(n, p) ==
  /\ done
  /\ stack' = <<Frame(n, p, EmptyMap)>>
  /\ ret' = NoRet
  /\ done' = FALSE
  /\ UNCHANGED <<G, w, B, cache, calls, cerr, runs, fails>>

\* parsley.Parse on the outcome of the root call (parse.go), for a root called at position B:
\* a node or an error, never neither
ApiOutcome ==
  LET e0 == IF ret.res = <<>> /\ ret.err = NoErr
            THEN (IF cerr # NoErr THEN cerr ELSE Err(B, "o", "no match was found"))
            ELSE ret.err
  IN IF e0 = NoErr THEN [node |-> ret.res[1], err |-> NoErr]
     ELSE [node |-> <<>>,
           err |-> IF e0.k # "ws" /\ cerr # NoErr /\ cerr.pos > e0.pos THEN cerr ELSE e0]

\* ---- properties stated on the machine -------------------------------------------------
\* C02: a memoised parser has entered its body at one position at most Remaining+2 times
ActiveCount(n, pos) ==
  Cardinality({i \in 1..Len(stack) : stack[i].n = n /\ stack[i].pos = pos /\ stack[i].st = 1})
ReentryBound ==
  \A i \in 1..Len(stack) :
     G[stack[i].n].k = "memo" /\ stack[i].st = 1 =>
        ActiveCount(stack[i].n, stack[i].pos) <= Remaining(stack[i].pos) + 2

\* C07 (model side): a stored result is only ever replaced by a result with the same alternatives
\* unless the stored one was curtailed more (it may then grow)
CacheMonotone ==
  [][\A key \in DOMAIN cache : key \in DOMAIN cache' /\
        (cache[key].lrc = EmptyMap => cache'[key].res = cache[key].res)]_vars

\* C06: the furthest position at which a terminal or End was tried and did not match (0: none)
FailPositions == {a[1] : a \in {x \in fails : x[3] = "t"}}
Furthest == IF FailPositions = {} THEN 0 ELSE CHOOSE p \in FailPositions : \A q \in FailPositions : q <= p

\* C03: without left recursion the body of a memoised parser runs at most once per position
AtMostOnce == \A key \in DOMAIN runs : runs[key] <= 1
=============================================================================
