CONSTANTS PinnedSeqReset = FALSE  PinnedAnyDrop = FALSE
  Fam = "CAT"  MaxLen = 3  Alphabet = {97, 98}  Base = 1  NSlices = 1  Slice = 0
  MaxCalls = 400  MaxDepth = 150  MaxRes = 16  Wrap = "none"  TwoPhase = FALSE  NameAll = FALSE  DoExport = FALSE
INIT Init
NEXT Next
CONSTRAINT Budget
INVARIANTS ReentryBound Complete StartsOK XorOutcome SentenceIff FurthestError AtMostOnceLRFree Export
CHECK_DEADLOCK TRUE
