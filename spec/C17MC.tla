------------------------------- MODULE C17MC -------------------------------
(* C17: the number of parser invocations (Context.CallCount) on the unambiguous families of the property, as a      *)
(* function of the input length n.  With RunMachine = TRUE ParsleyMachine is run to the end of the Sentence call    *)
(* and the case is printed with the machine's call count; with FALSE only (family, n, grammar, input) is printed    *)
(* (large n: the real code is measured, the table is judged by C17Trace).                                            *)
EXTENDS ParsleyMachine, Grammar, Json

CONSTANTS Fams, Sizes, RunMachine, Variants

LP == Tm(40)
RP == Tm(41)
PLUS == Tm(43)
STAR == Tm(42)
DIG == Tm(100)
COMMA == Tm(44)
RB == Tm(93)
MINUS == Tm(45)
SLASH == Tm(47)

Bodies(f) ==
  CASE f = "lr" -> <<AnyE(<<SeqE("of", <<Ref(1), Bt>>), A>>)>>                         \* P -> P b | a
    [] f = "arith" -> << AnyE(<<SeqE("of", <<Ref(1), PLUS, Ref(2)>>), Ref(2)>>),       \* E -> E + T | T
                         AnyE(<<SeqE("of", <<Ref(2), STAR, Ref(3)>>), Ref(3)>>),       \* T -> T * F | F
                         AnyE(<<SeqE("of", <<LP, Ref(1), RP>>), DIG>>) >>               \* F -> ( E ) | d
    [] f = "arithnest" -> << AnyE(<<SeqE("of", <<Ref(1), PLUS, Ref(2)>>), Ref(2)>>),
                             AnyE(<<SeqE("of", <<Ref(2), STAR, Ref(3)>>), Ref(3)>>),
                             AnyE(<<SeqE("of", <<LP, Ref(1), RP>>), DIG>>) >>               \* same grammar, nested parentheses
    [] f = "prec5" -> << AnyE(<<SeqE("of", <<Ref(1), PLUS, Ref(2)>>), Ref(2)>>),      \* five precedence levels, each left-recursive
                         AnyE(<<SeqE("of", <<Ref(2), MINUS, Ref(3)>>), Ref(3)>>),
                         AnyE(<<SeqE("of", <<Ref(3), STAR, Ref(4)>>), Ref(4)>>),
                         AnyE(<<SeqE("of", <<Ref(4), SLASH, Ref(5)>>), Ref(5)>>),
                         AnyE(<<SeqE("of", <<LP, Ref(1), RP>>), DIG>>) >>
    [] f = "lr2" -> <<AnyE(<<SeqE("of", <<Ref(1), Bt>>), SeqE("of", <<Ref(1), Ct>>), A>>)>>   \* P -> P b | P c | a
    [] f = "mutual" -> << AnyE(<<SeqE("of", <<Ref(2), X>>), A>>),                      \* P -> Q x | a
                          AnyE(<<SeqE("of", <<Ref(1), Y>>), Bt>>) >>                    \* Q -> P y | b
    [] f = "hidden" -> <<AnyE(<<SeqE("of", <<Opt(X), Ref(1), Bt>>), A>>)>>             \* P -> x? P b | a
    [] f = "brackets" -> <<AnyE(<<SeqE("of", <<LP, Ref(1), RP>>), A>>)>>               \* P -> ( P ) | a
    [] f = "brackets2" -> <<AnyE(<<SeqE("of", <<LP, Ref(1), RP>>), SeqE("of", <<LP, Ref(1), RB>>), A>>)>>   \* P -> ( P ) | ( P ] | a
    [] f = "seplist" -> <<SeqE("sepby1", <<A, COMMA>>)>>                               \* L -> a (, a)*

Rep(n, f(_)) == [i \in 1..n |-> f(i)]
\* an input of the family's language of length n (n >= 1; rounded to the family's shape)
InputOf(f, n) ==
  CASE f = "lr" -> [i \in 1..n |-> IF i = 1 THEN 97 ELSE 98]
    [] f = "arith" -> [i \in 1..(IF n % 2 = 0 THEN n + 1 ELSE n) |-> IF i % 2 = 1 THEN 100 ELSE IF i % 4 = 2 THEN 43 ELSE 42]   \* d+d*d+d*d...
    [] f = "arithnest" -> LET k == n \div 2 IN [i \in 1..(2 * k + 1) |-> IF i <= k THEN 40 ELSE IF i = k + 1 THEN 100 ELSE 41]   \* ((((d))))
    [] f = "prec5" -> LET k == n \div 2 IN [i \in 1..(2 * k + 1) |-> IF i <= k THEN 40 ELSE IF i = k + 1 THEN 100 ELSE 41]   \* ((((d))))
    [] f = "lr2" -> [i \in 1..n |-> IF i = 1 THEN 97 ELSE IF i % 2 = 0 THEN 98 ELSE 99]                                        \* a b c b c ...
    [] f = "mutual" -> [i \in 1..n |-> IF i = 1 THEN 97 ELSE IF i % 2 = 0 THEN 121 ELSE 120]     \* a y x y x ...  (P=a, Q=P y, P=Q x, ...)
    [] f = "hidden" -> [i \in 1..n |-> IF i = 1 THEN 97 ELSE 98]
    [] f = "brackets" -> LET k == n \div 2 IN [i \in 1..(2 * k + 1) |-> IF i <= k THEN 40 ELSE IF i = k + 1 THEN 97 ELSE 41]
    [] f = "brackets2" -> LET k == n \div 2 IN [i \in 1..(2 * k + 1) |-> IF i <= k THEN 40 ELSE IF i = k + 1 THEN 97 ELSE IF i % 2 = 0 THEN 41 ELSE 93]
    [] f = "seplist" -> [i \in 1..(IF n % 2 = 0 THEN n + 1 ELSE n) |-> IF i % 2 = 1 THEN 97 ELSE 44]

\* inputs OUTSIDE the family's language (the bound is on work, whatever the outcome): an unclosed nest, a dangling operator /
\* separator, a foreign last byte
BadInputOf(f, n) ==
  LET g == InputOf(f, n) IN
  CASE f \in {"arithnest", "brackets", "brackets2", "prec5"} -> SubSeq(g, 1, (n \div 2) + 1)
    [] f \in {"arith", "seplist"} -> SubSeq(g, 1, Len(g) - 1)
    [] OTHER -> [g EXCEPT ![Len(g)] = 122]

VARIABLES fam, size, variant
mvars == <<vars, fam, size, variant>>

Init == \E f \in Fams, n \in Sizes, v \in Variants :
          LET b == Build(Bodies(f))
              n1 == IF f = "mutual" /\ n % 2 = 0 THEN n + 1 ELSE n
              ww == IF v = "good" THEN InputOf(f, n1) ELSE BadInputOf(f, n1)
          IN /\ fam = f /\ size = Len(ww) /\ variant = v
             /\ InitWith(b.G, ww, 1, b.root)
Next == IF RunMachine THEN (Step /\ UNCHANGED <<fam, size, variant>>) \/ (done /\ UNCHANGED mvars) ELSE UNCHANGED mvars

Finished == IF RunMachine THEN done ELSE TRUE
Export == Finished =>
  PrintT(ToJson([fam |-> fam \o "/" \o variant, n |-> size, G |-> G, w |-> w, root |-> Len(G), exp |-> (variant = "good"),
                 mcalls |-> IF RunMachine THEN calls ELSE 0 - 1,
                 mok |-> IF RunMachine THEN ret.res # <<>> ELSE TRUE]))
\* the families are in the language: the machine accepts every generated input
Accepts == (RunMachine /\ done) => ((ret.res # <<>> /\ ret.err = NoErr) <=> (variant = "good"))
=============================================================================
