----------------------------- MODULE Derivation -----------------------------
(***************************************************************************)
(* What a grammar DERIVES, independently of how parsley computes it: the    *)
(* denotational meaning of a grammar (same node records as ParsleyMachine)  *)
(* over an input w, as a stratified least fixpoint.                         *)
(*   Ends(G, w)[n][p]   set of end cursors (0-based) of the derivations of  *)
(*                      node n that start at cursor p                       *)
(* Monotone operators (terminal, End, Empty, Optional, Any, SeqOf, memo,    *)
(* named, pass) are a plain least fixpoint.  The non-monotone ones follow   *)
(* their documented rules: Choice = first alternative that derives anything *)
(* at p; the Seq family = the MAXIMAL paths through its element parsers,    *)
(* kept when lenCheck accepts their length (SeqTry, SeqFirstOrAll, Many,    *)
(* Many1, SepBy, SepBy1).  A test "this element derives nothing here" is    *)
(* only made on a (node, position) that is already final: either input was  *)
(* consumed (larger p, computed earlier) or the node is in a lower stratum  *)
(* of the left-dependency graph.  Admissible(G) states exactly that, plus   *)
(* "repetition operands and separators consume input".                      *)
(***************************************************************************)
EXTENDS Integers, Sequences, FiniteSets, TLC

NodesOf(G) == 1..Len(G)

\* ---- syntactic nullability (least fixpoint) ----
NullStep(G, nu) ==
  [n \in NodesOf(G) |->
     LET g == G[n] IN
     CASE g.k \in {"empty", "opt", "end"} -> TRUE
       [] g.k = "term" -> FALSE
       [] g.k \in {"any", "choice"} -> \E i \in 1..Len(g.kids) : nu[g.kids[i]]
       [] g.k \in {"memo", "named", "pass"} -> nu[g.kids[1]]
       [] g.k = "seq" ->
            CASE g.mode = "of" -> \A i \in 1..Len(g.kids) : nu[g.kids[i]]
              [] g.mode \in {"try", "foa", "many1", "sepby1"} -> nu[g.kids[1]]
              [] OTHER -> TRUE
       [] OTHER -> nu[g.kids[1]]]      \* ltrim / rtrim
RECURSIVE NullFix(_, _)
NullFix(G, nu) == LET nu2 == NullStep(G, nu) IN IF nu2 = nu THEN nu ELSE NullFix(G, nu2)
Nullable(G) == NullFix(G, [n \in NodesOf(G) |-> FALSE])

\* ---- left-dependency edges: <<target, tested>> ----
RECURSIVE PrefixKids(_, _, _, _)
PrefixKids(G, nu, kids, i) ==   \* kids reachable at the start position
  IF i > Len(kids) THEN {}
  ELSE {kids[i]} \cup (IF nu[kids[i]] THEN PrefixKids(G, nu, kids, i + 1) ELSE {})

LeftEdges(G, nu, n) ==
  LET g == G[n] IN
  CASE g.k \in {"opt", "memo", "named", "pass", "ltrim", "rtrim", "single", "suppress"} -> {<<g.kids[1], FALSE>>}
    [] g.k = "any" -> {<<g.kids[i], FALSE>> : i \in 1..Len(g.kids)}
    [] g.k = "choice" -> {<<g.kids[i], i < Len(g.kids)>> : i \in 1..Len(g.kids)}
    [] g.k = "seq" ->
         CASE g.mode = "of" -> {<<m, FALSE>> : m \in PrefixKids(G, nu, g.kids, 1)}
           [] g.mode \in {"try", "foa"} -> {<<m, TRUE>> : m \in PrefixKids(G, nu, g.kids, 1)}
           [] g.mode \in {"many", "many1"} -> {<<g.kids[1], TRUE>>}
           [] OTHER -> {<<g.kids[1], TRUE>>} \cup (IF nu[g.kids[1]] THEN {<<g.kids[2], TRUE>>} ELSE {})
    [] OTHER -> {}

Succ(G, nu, n) == {e[1] : e \in LeftEdges(G, nu, n)}

RECURSIVE ReachFix(_, _)
ReachFix(G, R) ==
  LET R2 == [n \in NodesOf(G) |-> R[n] \cup UNION {R[m] : m \in R[n]}]
  IN IF R2 = R THEN R ELSE ReachFix(G, R2)
Reach(G, nu) == ReachFix(G, [n \in NodesOf(G) |-> Succ(G, nu, n)])

RECURSIVE PassesErr(_, _, _)
PassesErr(G, n, fuel) ==     \* n may return results TOGETHER with an error: an Optional, seen through wrappers that pass both on
  \/ G[n].k = "opt"
  \/ fuel > 0 /\ G[n].k \in {"memo", "named", "pass", "ltrim", "rtrim"} /\ PassesErr(G, G[n].kids[1], fuel - 1)

Admissible(G) ==
  LET nu == Nullable(G)
      R == Reach(G, nu)
  IN /\ \A n \in NodesOf(G) : G[n].k \notin {"single", "suppress"}    \* no denotation here (Single / SuppressError change trees / errors only)
     \* trims have a (compositional) denotation only in the mode that allows any run: the other modes make the outcome depend
     \* on WHICH alternative is looked at last (RightTrim) - those are C10's, through the machine
     /\ \A n \in NodesOf(G) : G[n].k \in {"ltrim", "rtrim"} => G[n].mode = "nl"
     \* (RightTrim leaves a result untrimmed when its operand returned an error next to it, which an Optional does whenever its
     \* own operand failed: whether the empty alternative moves then depends on more than the end positions)
     /\ \A n \in NodesOf(G) : G[n].k = "rtrim" => ~PassesErr(G, G[n].kids[1], Len(G))
     /\ \A n \in NodesOf(G) : \A e \in LeftEdges(G, nu, n) : e[2] => n \notin R[e[1]] /\ n # e[1]
     /\ \A n \in NodesOf(G) : G[n].k = "seq" /\ G[n].mode \in {"many", "many1"} => ~nu[G[n].kids[1]]
     /\ \A n \in NodesOf(G) : G[n].k = "seq" /\ G[n].mode \in {"sepby", "sepby1"} =>
                                  ~nu[G[n].kids[1]] /\ ~nu[G[n].kids[2]]

\* "the returned tree starts at the first byte and ends at end of input" is a statement about grammars that do not skip
\* blanks (a left trim in front moves the start, a right trim at the end is needed to reach the end at all)
SpanDomain(G) == \A n \in NodesOf(G) : G[n].k \notin {"ltrim", "rtrim"}

\* no node depends on itself at the same position (C03's domain)
LRFree(G) == LET R == Reach(G, Nullable(G)) IN \A n \in NodesOf(G) : n \notin R[n]

\* every node derives at least one string (least fixpoint); a named Any over a nonterminal that
\* derives nothing reports an expectation where no terminal was ever tried (C06's domain)
ProdStep(G, pr) ==
  [n \in NodesOf(G) |->
     LET g == G[n] IN
     CASE g.k \in {"term", "end", "empty", "opt"} -> TRUE
       [] g.k \in {"any", "choice"} -> \E i \in 1..Len(g.kids) : pr[g.kids[i]]
       [] g.k \in {"memo", "named", "pass", "single", "suppress", "ltrim", "rtrim"} -> pr[g.kids[1]]
       [] g.k = "seq" ->
            CASE g.mode = "of" -> \A i \in 1..Len(g.kids) : pr[g.kids[i]]
              [] g.mode \in {"try", "foa", "many1", "sepby1"} -> pr[g.kids[1]]
              [] OTHER -> TRUE
       [] OTHER -> FALSE]
RECURSIVE ProdFix(_, _)
ProdFix(G, pr) == LET p2 == ProdStep(G, pr) IN IF p2 = pr THEN pr ELSE ProdFix(G, p2)
Productive(G) == LET pr == ProdFix(G, [n \in NodesOf(G) |-> FALSE]) IN \A n \in NodesOf(G) : pr[n]

\* C06's domain: productive grammars without trims (C10), SuppressError (drops errors by design) and Single
C06Domain(G) == Productive(G) /\ \A n \in NodesOf(G) : G[n].k \notin {"ltrim", "rtrim", "single", "suppress"}

\* every Any / Choice carries a Name (is the operand of a "named" node)
AllNamed(G) == \A n \in NodesOf(G) : G[n].k \in {"any", "choice"} =>
                  \E m \in NodesOf(G) : G[m].k = "named" /\ G[m].kids = <<n>>

\* ---- meaning ----
Elem(G, n, d) ==
  LET g == G[n] IN
  CASE g.mode \in {"of", "try", "foa"} -> IF d < Len(g.kids) THEN g.kids[d + 1] ELSE 0
    [] g.mode \in {"many", "many1"} -> g.kids[1]
    [] OTHER -> g.kids[(d % 2) + 1]
LenOK(G, n, d) ==
  LET g == G[n] l == Len(g.kids) IN
  CASE g.mode = "of" -> d = l
    [] g.mode = "try" -> d > 0 /\ d <= l
    [] g.mode = "foa" -> d = 1 \/ d = l
    [] g.mode = "many" -> TRUE
    [] g.mode = "many1" -> d > 0
    [] g.mode = "sepby" -> d = 0 \/ d % 2 = 1
    [] OTHER -> d % 2 = 1

RECURSIVE Walk(_, _, _, _, _)
Walk(G, T, n, d, q) ==      \* end positions of maximal paths of the Seq-family node n
  LET el == Elem(G, n, d) IN
  IF el # 0 /\ T[el][q] # {} THEN UNION {Walk(G, T, n, d + 1, e) : e \in T[el][q]}
  ELSE IF LenOK(G, n, d) THEN {q} ELSE {}

RECURSIVE FirstNonEmpty(_, _, _, _)
FirstNonEmpty(T, kids, i, p) ==
  IF i > Len(kids) THEN {}
  ELSE IF T[kids[i]][p] # {} THEN T[kids[i]][p] ELSE FirstNonEmpty(T, kids, i + 1, p)

RECURSIVE WsRunEnd(_, _)
WsRunEnd(w, p) == IF p < Len(w) /\ w[p + 1] \in {32, 9, 10, 12} THEN WsRunEnd(w, p + 1) ELSE p

EvalAt(G, w, T, n, p) ==
  LET g == G[n] IN
  CASE g.k = "term" -> IF p < Len(w) /\ w[p + 1] = g.ch THEN {p + 1} ELSE {}
    [] g.k = "end" -> IF p >= Len(w) THEN {p} ELSE {}
    [] g.k = "empty" -> {p}
    [] g.k = "opt" -> T[g.kids[1]][p] \cup {p}
    [] g.k = "any" -> UNION {T[g.kids[i]][p] : i \in 1..Len(g.kids)}
    [] g.k = "choice" -> FirstNonEmpty(T, g.kids, 1, p)
    [] g.k \in {"memo", "named", "pass"} -> T[g.kids[1]][p]
    [] g.k = "ltrim" -> T[g.kids[1]][WsRunEnd(w, p)]                          \* the operand starts behind the run
    [] g.k = "rtrim" -> {WsRunEnd(w, e) : e \in T[g.kids[1]][p]}             \* every alternative's end moves behind the run that follows it
    [] g.k = "seq" -> Walk(G, T, n, 0, p)

RECURSIVE Kleene(_, _, _, _, _)
Kleene(G, w, T, ns, p) ==     \* iterate the nodes ns at position p to a fixpoint
  LET T2 == [n \in NodesOf(G) |-> IF n \in ns THEN [T[n] EXCEPT ![p] = EvalAt(G, w, T, n, p)] ELSE T[n]]
  IN IF T2 = T THEN T ELSE Kleene(G, w, T2, ns, p)

RECURSIVE RankLoop(_, _, _, _, _, _)
RankLoop(G, w, T, rank, r, p) ==
  IF r > Len(G) THEN T
  ELSE RankLoop(G, w, Kleene(G, w, T, {n \in NodesOf(G) : rank[n] = r}, p), rank, r + 1, p)

RECURSIVE PosLoop(_, _, _, _, _)
PosLoop(G, w, T, rank, p) ==
  IF p < 0 THEN T ELSE PosLoop(G, w, RankLoop(G, w, T, rank, 0, p), rank, p - 1)

Ends(G, w) ==
  LET nu == Nullable(G)
      R == Reach(G, nu)
      rank == [n \in NodesOf(G) |-> Cardinality(R[n] \ {n})]
  IN PosLoop(G, w, [n \in NodesOf(G) |-> [p \in 0..Len(w) |-> {}]], rank, Len(w))

\* ---- the SET of derivation trees (same stratified fixpoint, tree-valued) --------------------------------------
\* trees in the harness' rendering, global positions (B + cursor):
\*   <<"T", s, e, token>>  <<"E", p, p>>  <<"EOF", p, p>>  <<"N", s, e, token, <<children>>>>
\* Any, Optional, Memoize and names add no node: only the Seq family builds non-terminals.  The set is finite unless a
\* Seq node lies on a cycle that consumes nothing; the iteration is capped and reports non-convergence.
ChrOf(c) == IF c = 97 THEN "a" ELSE IF c = 98 THEN "b" ELSE IF c = 99 THEN "c" ELSE IF c = 100 THEN "d"
            ELSE IF c = 120 THEN "x" ELSE IF c = 121 THEN "y" ELSE IF c = 10 THEN "\n" ELSE IF c = 32 THEN " " ELSE "?"
TokOf(mode) == IF mode \in {"many", "many1"} THEN "MANY" ELSE IF mode \in {"sepby", "sepby1"} THEN "SEP_BY" ELSE "SEQ"
MkN(B, tok, acc, p) == IF acc = <<>> THEN <<"N", B + p, B + p, tok, <<>>>> ELSE <<"N", acc[1][2], acc[Len(acc)][3], tok, acc>>

RECURSIVE WalkT(_, _, _, _, _, _, _, _)
WalkT(G, B, TT, n, d, q, acc, p) ==      \* trees of the maximal paths of Seq node n from depth d at cursor q
  LET el == Elem(G, n, d) IN
  IF el # 0 /\ TT[el][q] # {} THEN UNION {WalkT(G, B, TT, n, d + 1, t[3] - B, Append(acc, t), p) : t \in TT[el][q]}
  ELSE IF LenOK(G, n, d) THEN {MkN(B, TokOf(G[n].mode), acc, p)} ELSE {}

RECURSIVE FirstNonEmptyT(_, _, _, _)
FirstNonEmptyT(TT, kids, i, p) ==
  IF i > Len(kids) THEN {} ELSE IF TT[kids[i]][p] # {} THEN TT[kids[i]][p] ELSE FirstNonEmptyT(TT, kids, i + 1, p)

EvalTreesAt(G, w, B, TT, n, p) ==
  LET g == G[n] IN
  CASE g.k = "term" -> IF p < Len(w) /\ w[p + 1] = g.ch THEN {<<"T", B + p, B + p + 1, ChrOf(g.ch)>>} ELSE {}
    [] g.k = "end" -> IF p >= Len(w) THEN {<<"EOF", B + p, B + p>>} ELSE {}
    [] g.k = "empty" -> {<<"E", B + p, B + p>>}
    [] g.k = "opt" -> TT[g.kids[1]][p] \cup {<<"E", B + p, B + p>>}
    [] g.k = "any" -> UNION {TT[g.kids[i]][p] : i \in 1..Len(g.kids)}
    [] g.k = "choice" -> FirstNonEmptyT(TT, g.kids, 1, p)
    [] g.k \in {"memo", "named", "pass"} -> TT[g.kids[1]][p]
    [] g.k = "seq" -> WalkT(G, B, TT, n, 0, p, <<>>, p)

\* iterate the nodes ns at cursor p; <<TT, converged>>
RECURSIVE KleeneT(_, _, _, _, _, _, _)
KleeneT(G, w, B, TT, ns, p, fuel) ==
  LET T2 == [n \in NodesOf(G) |-> IF n \in ns THEN [TT[n] EXCEPT ![p] = EvalTreesAt(G, w, B, TT, n, p)] ELSE TT[n]]
      big == \E n \in ns : Cardinality(T2[n][p]) > 24      \* explosively ambiguous: give up (reported as not converged)
  IN IF T2 = TT THEN <<TT, TRUE>> ELSE IF fuel = 0 \/ big THEN <<TT, FALSE>> ELSE KleeneT(G, w, B, T2, ns, p, fuel - 1)
RECURSIVE RankLoopT(_, _, _, _, _, _, _)
RankLoopT(G, w, B, TT, rank, r, p) ==
  IF r > Len(G) THEN <<TT, TRUE>>
  ELSE LET k == KleeneT(G, w, B, TT, {n \in NodesOf(G) : rank[n] = r}, p, Len(w) + Len(G) + 2)
       IN IF ~k[2] THEN <<TT, FALSE>> ELSE RankLoopT(G, w, B, k[1], rank, r + 1, p)
RECURSIVE PosLoopT(_, _, _, _, _, _)
PosLoopT(G, w, B, TT, rank, p) ==
  IF p < 0 THEN <<TT, TRUE>>
  ELSE LET k == RankLoopT(G, w, B, TT, rank, 0, p) IN IF ~k[2] THEN <<TT, FALSE>> ELSE PosLoopT(G, w, B, k[1], rank, p - 1)
\* <<trees function, converged>>; when not converged the grammar has (practically) infinitely many trees: only end
\* positions and ValidTree are judged
TreeSets(G, w, B) ==
  LET nu == Nullable(G)
      R == Reach(G, nu)
      rank == [n \in NodesOf(G) |-> Cardinality(R[n] \ {n})]
  IN PosLoopT(G, w, B, [n \in NodesOf(G) |-> [p \in 0..Len(w) |-> {}]], rank, Len(w))

\* ---- soundness of a returned TREE ---------------------------------------------------
\* trees as the harness renders them (global positions, B = base offset of the file):
\*   <<"T", s, e, token>>  <<"E", p, p>>  <<"EOF", p, p>>  <<"N", s, e, token, <<children>>>>
\* ValidTree: t is a derivation of node n starting at position p: the children come from the right element
\* parsers, spans are contiguous, leaves spell the input, the length satisfies the combinator's rule and - for
\* the longest-path combinators - the path is maximal (T = Ends(G, w) tells whether the next element derives
\* anything there).  seen: nodes already visited for this very tree (cyclic unit rules).
RECURSIVE ValidTree(_, _, _, _, _, _, _, _)
ValidTree(G, w, B, T, n, t, p, seen) ==
  LET g == G[n] IN
  /\ n \notin seen
  /\ t[2] = p
  /\ CASE g.k = "term" -> t[1] = "T" /\ t[3] = p + 1 /\ p - B < Len(w) /\ w[p - B + 1] = g.ch
       [] g.k = "end" -> t[1] = "EOF" /\ t[3] = p /\ p - B >= Len(w)
       [] g.k = "empty" -> t[1] = "E" /\ t[3] = p
       [] g.k = "opt" -> (t[1] = "E" /\ t[3] = p) \/ ValidTree(G, w, B, T, g.kids[1], t, p, seen \cup {n})
       [] g.k \in {"any", "choice"} -> \E i \in 1..Len(g.kids) : ValidTree(G, w, B, T, g.kids[i], t, p, seen \cup {n})
       [] g.k \in {"memo", "named", "pass"} -> ValidTree(G, w, B, T, g.kids[1], t, p, seen \cup {n})
       [] g.k = "seq" ->
            /\ t[1] = "N"
            /\ LET ks == t[5]
                   d == Len(ks)
                   startOf(i) == IF i = 1 THEN p ELSE ks[i - 1][3]
                   endPos == IF d = 0 THEN p ELSE ks[d][3]
                   nextEl == Elem(G, n, d)
               IN /\ LenOK(G, n, d)
                  /\ t[3] = endPos
                  /\ \A i \in 1..d : Elem(G, n, i - 1) # 0 /\ ValidTree(G, w, B, T, Elem(G, n, i - 1), ks[i], startOf(i), {})
                  /\ (nextEl # 0 => T[nextEl][endPos - B] = {})          \* the path is maximal
                  /\ (d > 0 /\ ks[d][1] = "EOF") \/ TRUE
       [] OTHER -> FALSE
=============================================================================
