CONSTANTS Contents <- Empty  Bases <- Empty  Runes <- Empty  Strings <- Empty  Words <- Empty
INIT TraceInit
NEXT TraceNext
INVARIANTS Hwm
POSTCONDITION Accepted
CHECK_DEADLOCK FALSE
