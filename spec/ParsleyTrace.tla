----------------------------- MODULE ParsleyTrace -----------------------------
(***************************************************************************)
(* Trace validation: executions of the REAL combinators, recorded by the     *)
(* probes the harness wraps around every grammar node, are replayed through   *)
(* the actions of ParsleyMachine - one machine step per recorded event, every *)
(* logged field (node, position, left-recursion context, call counter,        *)
(* ordered shallow results, curtailing set, returned error, furthest context  *)
(* error) must equal what the machine computes.                               *)
(*                                                                            *)
(* The PROPERTY predicates are evaluated on the logged observations           *)
(* themselves, against the denotational oracle (Derivation), so that a        *)
(* verdict never depends on the machine being a perfect mirror:               *)
(*   C01  end positions of every top-level call = Derivation!Ends             *)
(*   C02  body activations of a memoised parser at one position <= Rem + 2    *)
(*   C04  Parse: node xor error; Sentence succeeds iff the whole input is      *)
(*        derived; span = whole file; Evaluate: value xor error, no panic      *)
(*   C06  error text = an expectation that failed, at a position <= furthest   *)
(*        failed terminal attempt (= when all alternatives are named)          *)
(* With JudgeOnly = TRUE the machine is not stepped (call/ret lines are only   *)
(* judged): this is how a rejection is classified - rejected by the machine    *)
(* but accepted by JudgeOnly = DRIFT (behaviour-preserving difference),        *)
(* rejected by JudgeOnly = the property itself is violated on a real run.      *)
(***************************************************************************)
EXTENDS ParsleyMachine, Json, IOUtils

CONSTANTS JudgeOnly,   \* TRUE: do not step the machine, only judge the logged observations
          Props        \* the property predicates to evaluate, a subset of {"C01", "C02", "C04", "C06"}

Trace == ndJsonDeserialize(IOEnv.TRACE)

VARIABLES l,      \* next line of Trace
          T,      \* Derivation!Ends(G, w) of the current case (<<>> if not claimed admissible)
          apio,   \* ApiOutcome of the machine after the root call of the current case
          TS,     \* Derivation!TreeSets(G, w, B) of the current case: <<tree sets, converged>> (<<>> if not requested)
          root,   \* the begin line of the current case
          rr      \* the line of the root call's return in the current case (0: not yet)
tvars == <<vars, l, T, TS, apio, root, rr>>

D == INSTANCE Derivation

ASSUME TLCSet(42, 0)

Ev == Trace[l]

LrcOf(ps) == [k \in {ps[i][1] : i \in 1..Len(ps)} |-> ps[CHOOSE i \in 1..Len(ps) : ps[i][1] = k][2]]
RECURSIVE ShOf(_)
ShOf(r) == [t |-> r[1], s |-> r[2], e |-> r[3], one |-> IF Len(r) = 4 THEN <<ShOf(r[4])>> ELSE <<>>]
ResOf(res) == [i \in 1..Len(res) |-> ShOf(res[i])]
SetOfSeq(s) == {s[i] : i \in 1..Len(s)}
ErrOf(e) == IF Len(e) = 0 THEN NoErr ELSE Err(e[1], e[2], e[3])

Idle ==
  /\ G = <<>> /\ w = <<>> /\ B = 1 /\ stack = <<>> /\ ret = NoRet /\ cache = [x \in {} |-> 0]
  /\ calls = 0 /\ cerr = NoErr /\ done = TRUE /\ runs = [x \in {} |-> 0] /\ fails = {}

TraceInit == Idle /\ l = 1 /\ T = <<>> /\ TS = <<>> /\ apio = <<>> /\ root = 1 /\ rr = 0

\* ---- a new case ---------------------------------------------------------------
Begin ==
  /\ Ev.ev = "begin"
  /\ (JudgeOnly \/ done)
  /\ G' = Ev.G /\ w' = Ev.w /\ B' = Ev.B
  /\ stack' = <<>> /\ ret' = NoRet /\ cache' = [x \in {} |-> 0] /\ calls' = 0 /\ cerr' = NoErr
  /\ done' = TRUE /\ runs' = [x \in {} |-> 0] /\ fails' = {}
  /\ Ev.adm => D!Admissible(Ev.G)      \* the generator's claims are re-asserted by the specification
  /\ Ev.c06 => D!C06Domain(Ev.G)
  /\ T' = IF Ev.adm /\ Props \cap {"C01", "C04"} # {} THEN D!Ends(Ev.G, Ev.w) ELSE <<>>
  /\ TS' = IF Ev.adm /\ "C01" \in Props /\ "treesets" \in DOMAIN Ev /\ Ev.treesets THEN D!TreeSets(Ev.G, Ev.w, Ev.B) ELSE <<>>
  /\ apio' = <<>>
  /\ root' = l
  /\ rr' = 0

\* ---- property predicates on logged observations ----------------------------------
EndsOfLogged(res) == {res[i][3] - B : i \in 1..Len(res)}
C01onRet == ("C01" \in Props /\ Ev.top /\ T # <<>>) =>
               IF EndsOfLogged(Ev.res) = T[Ev.n][Ev.pos - B] THEN TRUE
               ELSE Print(<<"C01 real ends differ from derivation: line", l, "node", Ev.n, "pos", Ev.pos,
                            EndsOfLogged(Ev.res), T[Ev.n][Ev.pos - B]>>, FALSE)
\* every returned tree is a valid derivation (children from the right sub-parsers, contiguous spans, leaves
\* spell the input, length rule and maximality of the longest-path combinators)
TreesValid ==
  ("C01" \in Props /\ Ev.top /\ T # <<>> /\ "trees" \in DOMAIN Ev) =>
     \A i \in 1..Len(Ev.trees) :
        IF D!ValidTree(G, w, B, T, Ev.n, Ev.trees[i], Ev.pos, {}) THEN TRUE
        ELSE Print(<<"C01 returned tree is not a derivation: line", l, "node", Ev.n, "pos", Ev.pos, Ev.trees[i]>>, FALSE)
\* every distinct tree is returned whenever the grammar has finitely many (the oracle's iteration converged)
TreesComplete ==
  ("C01" \in Props /\ Ev.top /\ TS # <<>> /\ TS[2] /\ "trees" \in DOMAIN Ev /\ G[Ev.n].k = "memo") =>   \* nonterminals; a Sentence root stops at its first full parse by design
     LET real == {Ev.trees[i] : i \in 1..Len(Ev.trees)}
         want == TS[1][Ev.n][Ev.pos - B]
     IN IF real = want THEN TRUE
        ELSE Print(<<"C01 returned trees differ from the derivation trees: line", l, "node", Ev.n, "pos", Ev.pos,
                     "missing", want \ real, "unexpected", real \ want>>, FALSE)
SpansOK == \A i \in 1..Len(Ev.res) : Ev.res[i][2] <= Ev.res[i][3] /\ Ev.res[i][3] <= B + Len(w)
C02onCall == ("C02" \in Props /\ Ev.bo > 0) =>
               IF Ev.act <= Len(w) - (Ev.pos - B) + 2 THEN TRUE
               ELSE Print(<<"C02 re-entry bound exceeded: line", l, "memo", Ev.bo, "pos", Ev.pos, "active", Ev.act>>, FALSE)

\* rendering of a position of the (single) parsed file "f": line and byte column
RECURSIVE LastLF(_)
LastLF(c) == IF c = 0 THEN 0 ELSE IF w[c] = 10 THEN c ELSE LastLF(c - 1)
LineOf(c) == 1 + Cardinality({i \in 1..c : w[i] = 10})
ColOf(c) == c - LastLF(c) + 1
TextOf(msg, pos) == "failed to parse the input: " \o msg \o " at f:" \o ToString(LineOf(pos - B)) \o ":" \o ToString(ColOf(pos - B))

MsgOfNode(n) == IF G[n].k = "end" THEN "was expecting the end of input" ELSE G[n].name
RootRet == Trace[rr]   \* the root call's return
C04onApi == "C04" \in Props =>
  LET rootNode == Trace[root].root IN
  /\ "panic" \notin DOMAIN Ev
  /\ Ev.node # Ev.err                                  \* exactly one of node / error
  /\ Ev.val # Ev.everr                                \* Evaluate: a value or an error
  /\ Ev.err => Ev.everr
  /\ Ev.node => Ev.val
  /\ T # <<>> => /\ Ev.node <=> (T[rootNode][0] # {})  \* Sentence: succeeds iff the whole input is derived
                 /\ (Ev.node /\ D!SpanDomain(G)) => Ev.span = <<B, B + Len(w)>>
C06onApi ==
  LET rt == RootRet
      att == {<<rt.att[i][1], MsgOfNode(rt.att[i][2])>> : i \in 1..Len(rt.att)}     \* failed terminal / End attempts
      nat == {<<rt.nat[i][1], MsgOfNode(rt.nat[i][2])>> : i \in 1..Len(rt.nat)}     \* named parsers that produced nothing
      far == IF att = {} THEN 0 ELSE CHOOSE p \in {a[1] : a \in att} : \A a \in att : a[1] <= p
  IN ("C06" \in Props /\ Ev.err /\ Trace[root].c06) =>
        IF \E a \in att \cup nat : /\ TextOf(a[2], a[1]) = Ev.text
                                   /\ a[1] <= far
                                   /\ (D!AllNamed(G) => a[1] = far)
        THEN TRUE
        ELSE Print(<<"C06 reported error is not a furthest real failure: line", l, Ev.text, "furthest", far, att, nat>>, FALSE)

\* ---- events ----------------------------------------------------------------------------
MachineCall ==
  /\ IF done THEN Ask(Ev.n, Ev.pos) ELSE Step
  /\ Len(stack') = (IF done THEN 1 ELSE Len(stack) + 1)
  /\ LET top == stack'[Len(stack')] IN
     /\ top.n = Ev.n
     /\ top.pos = Ev.pos
     /\ top.lrc = LrcOf(Ev.lrc)
  /\ calls' = Ev.calls
  /\ cerr' = ErrOf(Ev.cerr)

MachineRet ==
  /\ ~done /\ Step
  /\ Len(stack') = Len(stack) - 1
  /\ stack[Len(stack)].n = Ev.n
  /\ ret'.res = ResOf(Ev.res)
  /\ ret'.cp = SetOfSeq(Ev.cp)
  /\ ret'.err = ErrOf(Ev.err)
  /\ calls' = Ev.calls
  /\ cerr' = ErrOf(Ev.cerr)
  /\ done' = Ev.top

TraceCall ==
  /\ Ev.ev = "call"
  /\ C02onCall
  /\ IF JudgeOnly THEN UNCHANGED vars ELSE MachineCall
  /\ UNCHANGED <<T, TS, apio, root, rr>>

TraceRet ==
  /\ Ev.ev = "ret"
  /\ C01onRet /\ SpansOK /\ TreesValid /\ TreesComplete
  /\ IF JudgeOnly THEN UNCHANGED vars ELSE MachineRet
  /\ apio' = IF ~JudgeOnly /\ Ev.top /\ apio = <<>> /\ Ev.n = Trace[root].root THEN ApiOutcome' ELSE apio
  /\ rr' = IF Ev.top /\ rr = 0 THEN l ELSE rr
  /\ UNCHANGED <<T, TS, root>>

TraceApi ==
  /\ Ev.ev = "api"
  /\ "skipped" \notin DOMAIN Ev          \* (a run the harness gave up on is not an observation)
  /\ (JudgeOnly \/ done)
  /\ rr > 0
  /\ C04onApi /\ C06onApi
  \* conformance: the machine's view of parsley.Parse for the root call
  /\ (~JudgeOnly /\ apio # <<>>) =>
        /\ Ev.node = (apio.node # <<>>)
        /\ Ev.err => Ev.text = TextOf(apio.err.msg, apio.err.pos)
  /\ UNCHANGED <<vars, T, TS, apio, root, rr>>

\* C07: the harness re-reads everything any parser has returned so far (token, value, children, start, end, list
\* membership) after every top-level call and asks every memoised parser again; a difference is logged as a
\* "mutation" line.  A returned result is a value: the specification has no action that changes one.
TraceMutation ==
  /\ Ev.ev = "mutation"
  /\ IF "C07" \in Props THEN Print(<<"C07 a returned result was modified afterwards: line", l, "node", Ev.n, "pos", Ev.pos>>, FALSE) ELSE TRUE
  /\ UNCHANGED <<vars, T, TS, apio, root, rr>>

TraceNext ==
  /\ l <= Len(Trace)
  /\ l' = l + 1
  /\ (Begin \/ TraceCall \/ TraceRet \/ TraceApi \/ TraceMutation)

TraceSpec == TraceInit /\ [][TraceNext]_tvars

Hwm == TLCSet(42, IF l > TLCGet(42) THEN l ELSE TLCGet(42))
Accepted == IF TLCGet(42) = Len(Trace) + 1 THEN TRUE
            ELSE Print(<<"REJECTED at line", TLCGet(42)>>, FALSE)

\* machine invariants evaluated at every step of every real execution
TraceReentryBound == JudgeOnly \/ ReentryBound
=============================================================================
