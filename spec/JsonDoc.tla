------------------------------ MODULE JsonDoc ------------------------------
(***************************************************************************)
(* The JSON subset the example grammar of opsidian/parsley supports           *)
(* (examples/json/json/parser.go, used as Sentence(Trim(NewParser()))), as a  *)
(* document algebra (property C16):                                          *)
(*                                                                           *)
(*   abstract value  ->  rendering with a whitespace choice in every gap     *)
(*                   ->  class  ->  what must be observed                    *)
(*                                                                           *)
(* A value is <<"obj", <<<<key index, value>>, ...>>>>, <<"arr", <<values>>>> *)
(* or <<"s", scalar index>> (a scalar of the table below) or <<"c", chars>>,   *)
(* a scalar given by its source text as a sequence of one-character strings,  *)
(* which the specification classifies by SYNTAX (LitClass): the grammar of the *)
(* supported numbers and strings is part of this module.                      *)
(* Gaps: whitespace may appear before every value / key / closing bracket     *)
(* (anything: SP, TAB, LF) and before ',' and ':' (no line break there: the   *)
(* example uses WsSpaces for separators) and around the document.             *)
(*                                                                           *)
(* Classes:                                                                  *)
(*   "supported"    valid JSON inside the subset: parsley and encoding/json   *)
(*                  both accept, the values agree, the structure is the       *)
(*                  abstract value's                                          *)
(*   "unsupported"  valid JSON the example grammar does not take (line break  *)
(*                  before ',' or ':', exponent without fraction, "\/",        *)
(*                  surrogate pairs, integers beyond int64): no panic          *)
(*   "nonjson"      not JSON but Go-style number syntax the grammar accepts    *)
(*                  (.5, +1, 017, 0x1F): no panic                              *)
(*   "corrupt"      a supported rendering damaged by truncation, removal of a  *)
(*                  separator / bracket or trailing input: parsley must return *)
(*                  an error, never a value or a panic                         *)
(***************************************************************************)
EXTENDS Integers, Sequences, FiniteSets, TLC

\* ---- tables: <<rendered bytes as a string, class, skeleton tag>> -------------------------------------
\* (strings are TLA+ strings here; the harness turns them into bytes; \\ is one backslash)
Scalars == <<
  <<"\"a\"", "supported", "s">>, <<"\"\"", "supported", "s">>, <<"\"x\\ny\"", "supported", "s">>, <<"\"q\\\"\\\\\"", "supported", "s">>,
  <<"\"\\u00e9\\t\"", "supported", "s">>, <<"0", "supported", "i">>, <<"-12", "supported", "i">>, <<"9223372036854775807", "supported", "i">>,
  <<"3.5", "supported", "f">>, <<"-0.25", "supported", "f">>, <<"1.5e3", "supported", "f">>, <<"true", "supported", "b">>,
  <<"false", "supported", "b">>, <<"null", "supported", "n">>,
  <<"1e5", "unsupported", "">>, <<"\"\\/\"", "unsupported", "">>, <<"\"\\ud83c\\udf55\"", "unsupported", "">>, <<"9223372036854775808", "unsupported", "">>,
  <<".5", "nonjson", "">>, <<"+1", "nonjson", "">>, <<"017", "nonjson", "">>, <<"0x1F", "nonjson", "">> >>
NSupported == 14
Keys == <<"\"\"", "\"a\"", "\"b\"", "\"c\"">>         \* in ascending order of the decoded key
Ws == <<"", " ", "\n", " \t", "\n  ", "\r\n", "\r\n\r\n ">>   \* choices for a gap; 3, 5, 6, 7 contain a line break (6, 7: Windows line ends)
HasNl(i) == i \in {3, 5, 6, 7}

\* ---- scalars given by their source text -------------------------------------------------------------------
\* chars: a sequence of one-character strings.  LitClass(chars) = <<class, skeleton tag>>:
\*   integers    -?(0|[1-9][0-9]*)               supported when inside int64, otherwise unsupported
\*   decimals    -?(0|[1-9][0-9]*).[0-9]+([eE][+-]?[0-9]{1,2})?   supported (far inside float64's range)
\*   strings     "..." of printable ASCII other than " and \, non-ASCII characters, and the escapes
\*               \" \\ \n \t \r \b \f \uXXXX (not a surrogate); \/ and surrogate escapes are valid JSON the grammar lacks
\*   Go-style numbers (leading zeros, leading + or ., hexadecimal) are "nonjson"; anything else is "other"
SafeChars == {" ", "!", "#", "$", "%", "&", "'", "(", ")", "*", "+", ",", "-", ".", "/", "0", "1", "2", "3", "4", "5", "6", "7", "8", "9", ":", ";", "<", "=", ">", "?", "@", "A", "B", "C", "D", "E", "F", "G", "H", "I", "J", "K", "L", "M", "N", "O", "P", "Q", "R", "S", "T", "U", "V", "W", "X", "Y", "Z", "[", "]", "^", "_", "`", "a", "b", "c", "d", "e", "f", "g", "h", "i", "j", "k", "l", "m", "n", "o", "p", "q", "r", "s", "t", "u", "v", "w", "x", "y", "z", "{", "|", "}", "~",
              "é", "世", "ß"}
DigitChars == <<"0", "1", "2", "3", "4", "5", "6", "7", "8", "9">>
IsDig(c) == \E i \in 1..10 : DigitChars[i] = c
DigVal(c) == (CHOOSE i \in 1..10 : DigitChars[i] = c) - 1
IsHex(c) == IsDig(c) \/ c \in {"a", "b", "c", "d", "e", "f", "A", "B", "C", "D", "E", "F"}
RECURSIVE DigRun(_, _)
DigRun(cs, i) == IF i <= Len(cs) /\ IsDig(cs[i]) THEN DigRun(cs, i + 1) ELSE i      \* index after the run of digits at i
\* digit strings of equal length compare like numbers
RECURSIVE LeqDigits(_, _, _)
LeqDigits(a, b, i) == IF i > Len(a) THEN TRUE
                      ELSE IF DigVal(a[i]) < DigVal(b[i]) THEN TRUE
                      ELSE IF DigVal(a[i]) > DigVal(b[i]) THEN FALSE ELSE LeqDigits(a, b, i + 1)
MaxInt64 == <<"9", "2", "2", "3", "3", "7", "2", "0", "3", "6", "8", "5", "4", "7", "7", "5", "8", "0", "7">>
MinInt64Abs == <<"9", "2", "2", "3", "3", "7", "2", "0", "3", "6", "8", "5", "4", "7", "7", "5", "8", "0", "8">>
InInt64(neg, ds) == Len(ds) < 19 \/ (Len(ds) = 19 /\ LeqDigits(ds, IF neg THEN MinInt64Abs ELSE MaxInt64, 1))

NumClass(cs) ==
  LET neg == cs[1] = "-"
      i0 == IF neg THEN 2 ELSE 1
      i1 == DigRun(cs, i0)                               \* after the integer part
      ip == SubSeq(cs, i0, i1 - 1)
      jsonInt == Len(ip) >= 1 /\ (Len(ip) = 1 \/ ip[1] # "0")
  IN IF i1 = i0 THEN <<"other", "">>                      \* no integer part (.5, -, +1 are classified by the caller)
     ELSE IF i1 > Len(cs)
          THEN IF ~jsonInt THEN <<"nonjson", "">>
               ELSE IF InInt64(neg, ip) THEN <<"supported", "i">> ELSE <<"unsupported", "">>
     ELSE IF cs[i1] = "."
          THEN LET i2 == DigRun(cs, i1 + 1) IN
               IF i2 = i1 + 1 THEN <<"other", "">>          \* "1." : no digit after the point
               ELSE IF i2 > Len(cs) THEN (IF jsonInt /\ Len(cs) <= 40 THEN <<"supported", "f">> ELSE <<"other", "">>)
               ELSE IF cs[i2] \in {"e", "E"}
                    THEN LET i3 == IF i2 + 1 <= Len(cs) /\ cs[i2 + 1] \in {"+", "-"} THEN i2 + 2 ELSE i2 + 1
                             i4 == DigRun(cs, i3)
                         IN IF i4 > i3 /\ i4 > Len(cs) /\ i4 - i3 <= 2 /\ jsonInt /\ Len(cs) <= 40 THEN <<"supported", "f">> ELSE <<"other", "">>
                    ELSE <<"other", "">>
     ELSE IF cs[i1] \in {"e", "E"} THEN <<"unsupported", "">>   \* exponent without a fraction: JSON, not in the grammar (when well-formed; no obligation either way)
     ELSE <<"other", "">>

RECURSIVE StrBody(_, _)
\* scans the characters after the opening quote; result "supported" | "unsupported" | "other"
StrBody(cs, i) ==
  IF i > Len(cs) THEN "other"                                     \* unterminated
  ELSE IF cs[i] = "\"" THEN (IF i = Len(cs) THEN "supported" ELSE "other")
  ELSE IF cs[i] = "\\"
       THEN IF i + 1 > Len(cs) THEN "other"
            ELSE IF cs[i + 1] \in {"\"", "\\", "n", "t", "r", "b", "f"} THEN StrBody(cs, i + 2)
            ELSE IF cs[i + 1] = "/" THEN (IF StrBody(cs, i + 2) = "other" THEN "other" ELSE "unsupported")
            ELSE IF cs[i + 1] = "u"
                 THEN IF i + 5 <= Len(cs) /\ \A q \in (i + 2)..(i + 5) : IsHex(cs[q])
                      THEN IF cs[i + 2] \in {"d", "D"} /\ cs[i + 3] \in {"8", "9", "a", "b", "c", "d", "e", "f", "A", "B", "C", "D", "E", "F"}
                           THEN (IF StrBody(cs, i + 6) = "other" THEN "other" ELSE "unsupported")     \* a surrogate half
                           ELSE StrBody(cs, i + 6)
                      ELSE "other"
            ELSE "other"
  ELSE IF cs[i] \in SafeChars THEN StrBody(cs, i + 1)
  ELSE "other"

LitClass(cs) ==
  IF cs = <<>> THEN <<"other", "">>
  ELSE IF cs[1] = "\"" THEN (LET c == StrBody(cs, 2) IN <<c, IF c = "supported" THEN "s" ELSE "">>)
  ELSE IF IsDig(cs[1]) \/ (cs[1] = "-" /\ Len(cs) >= 2 /\ IsDig(cs[2])) THEN NumClass(cs)
  ELSE <<"other", "">>
RECURSIVE ConcatR(_, _, _)
ConcatR(cs, a, b) == IF a > b THEN "" ELSE IF a = b THEN cs[a]
                     ELSE LET m == (a + b) \div 2 IN ConcatR(cs, a, m) \o ConcatR(cs, m + 1, b)
Concat(cs) == ConcatR(cs, 1, Len(cs))

\* ---- rendering as a TOKEN sequence (brackets, separators, scalars, keys and whitespace strings are tokens) ----------
\* threads a gap counter g through the document; the whitespace of gap number g is Ws[pat[(g % Len(pat)) + 1]]
\* returns <<tokens, next gap counter, a line break was placed before a separator>>
RECURSIVE Ren(_, _, _), RenArr(_, _, _, _, _, _), RenObj(_, _, _, _, _, _)
Gap(pat, g) == pat[(g % Len(pat)) + 1]
W(pat, g) == <<Ws[Gap(pat, g)]>>
Ren(v, pat, g) ==
  IF v[1] = "s" THEN <<<<Scalars[v[2]][1]>>, g, FALSE>>
  ELSE IF v[1] = "c" THEN <<<<Concat(v[2])>>, g, FALSE>>
  ELSE IF v[1] = "arr" THEN RenArr(v[2], 1, pat, g, <<"[">>, FALSE)
  ELSE RenObj(v[2], 1, pat, g, <<"{">>, FALSE)
\* (Forced: TLC passes operator arguments as unevaluated thunks; an accumulator that is only extended would become a chain of
\* thunks as long as the document and be unwound on one stack at the very end - evaluating it at every step keeps the
\* recursion as deep as the document is nested)
Forced(g, acc, bad) == g >= 0 /\ Len(acc) >= 0 /\ (bad \/ TRUE)
RenArr(vs, i, pat, g, acc, bad) ==
  IF ~Forced(g, acc, bad) THEN <<acc, g, bad>> ELSE
  IF i > Len(vs) THEN <<acc \o W(pat, g) \o <<"]">>, g + 1, bad>>
  ELSE LET r == Ren(vs[i], pat, g + 1)
           more == i < Len(vs)
           sep == IF more THEN W(pat, r[2]) \o <<",">> ELSE <<>>
       IN RenArr(vs, i + 1, pat, IF more THEN r[2] + 1 ELSE r[2], acc \o W(pat, g) \o r[1] \o sep,
                 bad \/ r[3] \/ (more /\ HasNl(Gap(pat, r[2]))))
RenObj(ms, i, pat, g, acc, bad) ==
  IF ~Forced(g, acc, bad) THEN <<acc, g, bad>> ELSE
  IF i > Len(ms) THEN <<acc \o W(pat, g) \o <<"}">>, g + 1, bad>>
  ELSE LET r == Ren(ms[i][2], pat, g + 3)               \* gaps: g before the key, g+1 before ':', g+2 before the value
           more == i < Len(ms)
           sep == IF more THEN W(pat, r[2]) \o <<",">> ELSE <<>>
       IN RenObj(ms, i + 1, pat, IF more THEN r[2] + 1 ELSE r[2],
                 acc \o W(pat, g) \o <<Keys[ms[i][1]]>> \o W(pat, g + 1) \o <<":">> \o W(pat, g + 2) \o r[1] \o sep,
                 bad \/ r[3] \/ HasNl(Gap(pat, g + 1)) \/ (more /\ HasNl(Gap(pat, r[2]))))

\* the whole document: whitespace around it (Trim)
DocTokens(v, pat) == LET r == Ren(v, pat, 1) IN W(pat, 0) \o r[1] \o W(pat, r[2])
NlBeforeSep(v, pat) == Ren(v, pat, 1)[3]
\* (divide and conquer: the recursion is as deep as the logarithm of the number of tokens, not as their number)
RECURSIVE TextR(_, _, _)
TextR(ts, a, b) == IF a > b THEN "" ELSE IF a = b THEN ts[a]
                   ELSE LET m == (a + b) \div 2 IN TextR(ts, a, m) \o TextR(ts, m + 1, b)
Text(ts) == TextR(ts, 1, Len(ts))

\* ---- corruption of a rendering (token level) -----------------------------------------------------------------
IsWsTok(t) == \E i \in 1..Len(Ws) : t = Ws[i]
Remove(ts, k) == SubSeq(ts, 1, k - 1) \o SubSeq(ts, k + 1, Len(ts))
LastSolid(ts) == CHOOSE k \in 1..Len(ts) : ~IsWsTok(ts[k]) /\ \A j \in (k + 1)..Len(ts) : IsWsTok(ts[j])
FirstSolid(ts) == CHOOSE k \in 1..Len(ts) : ~IsWsTok(ts[k]) /\ \A j \in 1..(k - 1) : IsWsTok(ts[j])
\* cor = <<kind, k>>: "none" | "trunc" keep the first k tokens (inside a bracketed document) | "trail" append token k of Trailers
\*                    | "drop" remove token k, which must be a ':' or the closing bracket of the document
\*                    | "comma" insert a ',' before token k (k = Len + 1: at the end): dangling / doubled / leading separators
Trailers == <<" x", "]", " 1", ",", "}">>
Applicable(v, ts, cor) ==
  CASE cor[1] = "none" -> TRUE
    [] cor[1] = "trunc" -> v[1] \notin {"s", "c"} /\ cor[2] >= FirstSolid(ts) /\ cor[2] < LastSolid(ts)
    [] cor[1] = "trail" -> cor[2] \in 1..Len(Trailers)
    [] cor[1] = "drop" -> v[1] \notin {"s", "c"} /\ cor[2] \in 1..Len(ts) /\ (ts[cor[2]] = ":" \/ cor[2] = LastSolid(ts))
    [] cor[1] = "comma" -> cor[2] \in 1..(Len(ts) + 1)
    [] OTHER -> FALSE
Corrupt(ts, cor) ==
  CASE cor[1] = "trunc" -> SubSeq(ts, 1, cor[2])
    [] cor[1] = "trail" -> Append(ts, Trailers[cor[2]])
    [] cor[1] = "drop" -> Remove(ts, cor[2])
    [] cor[1] = "comma" -> SubSeq(ts, 1, cor[2] - 1) \o <<",">> \o SubSeq(ts, cor[2], Len(ts))
    [] OTHER -> ts

\* ---- class of the rendering of v -----------------------------------------------------------------------
RECURSIVE ScalarClasses(_)
ScalarClasses(v) ==
  IF v[1] = "s" THEN {Scalars[v[2]][2]}
  ELSE IF v[1] = "c" THEN {LitClass(v[2])[1]}
  ELSE IF v[1] = "arr" THEN UNION {ScalarClasses(v[2][i]) : i \in 1..Len(v[2])}
  ELSE UNION {ScalarClasses(v[2][i][2]) : i \in 1..Len(v[2])}
Class(v, pat) ==
  LET cs == ScalarClasses(v) IN
  IF "other" \in cs THEN "other"
  ELSE IF "nonjson" \in cs THEN "nonjson"
  ELSE IF "unsupported" \in cs \/ NlBeforeSep(v, pat) THEN "unsupported"
  ELSE "supported"

\* ---- structure of the value: objects list their DISTINCT keys in ascending order, the last member of a key wins ----
RECURSIVE Skel(_), SkelArr(_, _), SkelObj(_, _)
LastOf(ms, k) == CHOOSE i \in 1..Len(ms) : ms[i][1] = k /\ \A j \in (i + 1)..Len(ms) : ms[j][1] # k
Skel(v) ==
  IF v[1] = "s" THEN Scalars[v[2]][3]
  ELSE IF v[1] = "c" THEN LitClass(v[2])[2]
  ELSE IF v[1] = "arr" THEN "[" \o SkelArr(v[2], 1) \o "]"
  ELSE "{" \o SkelObj(v[2], 1) \o "}"
SkelArr(vs, i) == IF i > Len(vs) THEN "" ELSE Skel(vs[i]) \o (IF i < Len(vs) THEN "," ELSE "") \o SkelArr(vs, i + 1)
SkelObj(ms, k) ==
  IF k > Len(Keys) THEN ""
  ELSE IF \E i \in 1..Len(ms) : ms[i][1] = k THEN Keys[k] \o ":" \o Skel(ms[LastOf(ms, k)][2]) \o ";" \o SkelObj(ms, k + 1)
  ELSE SkelObj(ms, k + 1)

\* ---- what must be observed (obs: the harness' record of one evaluation) -------------------------------------
\* obs = [pok: parsley returned a value, perr: parsley returned an error, jok: encoding/json accepted,
\*        agree: deep equality of the two values, skel: structure of parsley's value, panic: bool,
\*        again: a second evaluation of the SAME text.File gave the same value / error]
\* a corruption of a supported rendering is "corrupt" when it is no longer JSON (encoding/json, the property's own
\* oracle, rejects it); a damaged text that happens to be valid JSON again carries no obligation beyond totality
DocClass(v, pat, cor) == IF cor[1] = "none" THEN Class(v, pat) ELSE IF Class(v, pat) = "supported" THEN "corrupt" ELSE "other"
Required(class, v, obs) ==
  /\ ~obs.panic
  /\ obs.again                         \* evaluating the same file a second time gives the same answer
  /\ obs.pok # obs.perr
  /\ CASE class = "supported" -> obs.pok /\ obs.jok /\ obs.agree /\ obs.skel = Skel(v)
       [] class = "corrupt" -> (~obs.jok) => (obs.perr /\ ~obs.pok)
       [] OTHER -> TRUE
=============================================================================
