----------------------------- MODULE ReaderTrace -----------------------------
(* Trace validation for C09: calls of the real text.Reader primitives on random contents (any bytes, CRLF,   *)
(* multi-byte runes) placed at random base offsets.  A line is                                             *)
(*  {"ev":"file","raw":[..],"base":b}               a new file (raw bytes before CRLF normalisation)         *)
(*  {"ev":"call","f":name,"pos":p,"arg":..,"rx":n,"np":newpos,"ok":bool,"val":[..],"err":[..]}             *)
EXTENDS Reader, Json, IOUtils

Trace == ndJsonDeserialize(IOEnv.TRACE)
VARIABLE l
tvars == <<vars, l>>
ASSUME TLCSet(42, 0)
Ev == Trace[l]
Empty == {}

\* (a CR directly followed by LF is dropped, everything else is kept: one left-to-right pass, pairs cannot overlap)
Norm(raw) ==
  LET keep == SelectSeq([i \in 1..Len(raw) |-> i], LAMBDA i : ~(raw[i] = 13 /\ i < Len(raw) /\ raw[i + 1] = 10))
  IN [k \in 1..Len(keep) |-> raw[keep[k]]]

TraceInit == data = <<>> /\ base = 1 /\ pos = 1 /\ l = 1

Matches(r) == r.pos = Ev.np /\ r.ok = Ev.ok
CallOK ==
  LET p == Ev.pos IN
  CASE Ev.f = "ReadRune" -> Matches(ReadRune(data, base, p, Ev.arg))
    [] Ev.f = "MatchString" -> Matches(MatchString(data, base, p, Ev.arg))
    [] Ev.f = "MatchWord" -> Matches(MatchWord(data, base, p, Ev.arg))
    [] Ev.f = "Remaining" -> Remaining(data, base, p) = Ev.np
    [] Ev.f = "IsEOF" -> IsEOF(data, base, p) = Ev.ok
    [] Ev.f = "SkipWs" -> LET r == SkipWs(data, base, p, Ev.arg) IN r.pos = Ev.np /\ r.err = Ev.err
    [] Ev.f = "Readf" -> LET r == Readf(data, base, p, Ev.arg) IN Matches(r) /\ r.val = Ev.val
    [] Ev.f \in {"ReadRegexp", "ReadRegexpSubmatch"} -> LET r == ReadRegexp(data, base, p, Ev.rx) IN Matches(r) /\ r.val = Ev.val
    [] OTHER -> FALSE

TraceStep ==
  CASE Ev.ev = "file" -> data' = Norm(Ev.raw) /\ base' = Ev.base /\ pos' = Ev.base
    [] Ev.ev = "call" -> /\ "panic" \notin DOMAIN Ev
                         /\ CallOK
                         /\ pos' = Ev.pos /\ UNCHANGED <<data, base>>
    [] OTHER -> FALSE
TraceNext == l <= Len(Trace) /\ l' = l + 1 /\ TraceStep
\* every position the trace visits is inside the file
TraceInBounds == base <= pos /\ pos <= base + Len(data)
Hwm == TLCSet(42, IF l > TLCGet(42) THEN l ELSE TLCGet(42))
Accepted == IF TLCGet(42) = Len(Trace) + 1 THEN TRUE ELSE Print(<<"REJECTED at line", TLCGet(42)>>, FALSE)
=============================================================================
