------------------------------- MODULE TrimMC -------------------------------
(* Design level for C10: the trims as ParsleyMachine executes them (LeftTrim's error priority, RightTrim moving  *)
(* ends, Seq's error rule, Parse's preference for whitespace errors) against the property statement Trim.tla,   *)
(* for every token sequence / gap strings / mode assignment of a bounded family.  Every case is exported.       *)
EXTENDS ParsleyMachine, Json, SequencesExt

CONSTANTS NTok, GapLen, GapAlphabet, Base, NSlices, Slice, DoExport

VARIABLES toks, gaps, lm, rm, rets
mvars == <<vars, toks, gaps, lm, rm, rets>>

Tr == INSTANCE Trim

Nd(k, mode, kids, ch, name) == [k |-> k, mode |-> mode, kids |-> kids, ch |-> ch, name |-> name]
TokByte(i) == 98 + i            \* c, d, e
TokName(i) == IF i = 1 THEN "was expecting \"c\"" ELSE IF i = 2 THEN "was expecting \"d\"" ELSE "was expecting \"e\""
\* a token is Choice(SeqOf(t, x), t) when Sfx (an optional continuation x that never occurs in the text: the operand of the
\* trims then leaves a non-fatal "was expecting x" behind the token, further to the right than a whitespace error of the
\* left trim) and Choice(t) otherwise.  Nodes of token i: 6i-5 term t, 6i-4 term x, 6i-3 SeqOf(t, x), 6i-2 the Choice,
\* 6i-1 ltrim, 6i rtrim; then End; then the root SeqOf
GrammarOf(k, l, r, form) ==
  [n \in 1..(6 * k + 2) |->
     IF n = 6 * k + 1 THEN Nd("end", "", <<>>, 0, "")
     ELSE IF n = 6 * k + 2 THEN Nd("seq", "of", [j \in 1..(k + 1) |-> IF j <= k THEN 6 * j ELSE 6 * k + 1], 0, "")
     ELSE LET i == (n + 5) \div 6 IN
          IF form = 2
          THEN \* the left trims INSIDE the Choice: Choice(LeftTrim(t), LeftTrim(x)) - a whitespace error of the first alternative
               \* sits at the Choice's own position and must not be mistaken for "this alternative is not there"
               CASE n % 6 = 1 -> Nd("term", "", <<>>, TokByte(i), TokName(i))
                 [] n % 6 = 2 -> Nd("term", "", <<>>, 120, "was expecting \"x\"")
                 [] n % 6 = 3 -> Nd("ltrim", l[i], <<n - 2>>, 0, "")
                 [] n % 6 = 4 -> Nd("ltrim", l[i], <<n - 2>>, 0, "")
                 [] n % 6 = 5 -> Nd("choice", "", <<n - 2, n - 1>>, 0, "")
                 [] OTHER -> Nd("rtrim", r[i], <<n - 1>>, 0, "")
          ELSE CASE n % 6 = 1 -> Nd("term", "", <<>>, TokByte(i), TokName(i))
                 [] n % 6 = 2 -> Nd("term", "", <<>>, 120, "was expecting \"x\"")
                 [] n % 6 = 3 -> Nd("seq", "of", <<n - 2, n - 1>>, 0, "")
                 [] n % 6 = 4 -> Nd("choice", "", IF form = 1 THEN <<n - 1, n - 3>> ELSE <<n - 3>>, 0, "")
                 [] n % 6 = 5 -> Nd("ltrim", l[i], <<n - 1>>, 0, "")
                 [] OTHER -> Nd("rtrim", r[i], <<n - 1>>, 0, "")]

ModeSet == {"none", "spaces", "nl", "forcenl"}
GapStrings == UNION {[1..n -> GapAlphabet] : n \in 0..GapLen}
Cases == {<<g, l, r, x>> : g \in [1..(NTok + 1) -> GapStrings], l \in [1..NTok -> ModeSet], r \in [1..NTok -> ModeSet], x \in {0, 1, 2}}
CaseSeq == SetToSeq(Cases)
Chosen == {CaseSeq[i] : i \in {j \in 1..Len(CaseSeq) : j % NSlices = Slice}}

Init == \E c \in Chosen :
          LET tk == [i \in 1..NTok |-> TokByte(i)] IN
          /\ toks = tk /\ gaps = c[1] /\ lm = c[2] /\ rm = c[3] /\ rets = <<>>
          /\ InitWith(GrammarOf(NTok, c[2], c[3], c[4]), Tr!TextOf(tk, c[1]), Base, 6 * NTok + 2)

MStep == /\ Step
         /\ rets' = IF ret'.t = "ret" /\ G[stack[Len(stack)].n].k = "rtrim" /\ ret'.res # <<>> /\ ret'.err = NoErr
                    THEN Append(rets, <<ret'.res[1].s - B, ret'.res[1].e - B>>) ELSE rets
         /\ UNCHANGED <<toks, gaps, lm, rm>>
Next == MStep \/ (done /\ UNCHANGED mvars)

\* machine = property
Agrees ==
  done =>
    LET e == Tr!Expected(toks, gaps, lm, rm)
        o == ApiOutcome
    IN IF /\ e.ok <=> (o.err = NoErr)
          /\ e.ok => rets = e.nodes /\ o.node.s = B + e.nodes[1][1] /\ o.node.e = B + Len(w)
          /\ ~e.ok => o.err = Err(B + e.err[1], "ws", e.err[2])
       THEN TRUE
       ELSE Print(<<"TRIM machine differs from property", toks, gaps, lm, rm, e, o, rets>>, FALSE)
TransparentInv == Tr!Transparent(toks, gaps, lm, rm)

Export ==
  DoExport /\ done =>
    LET e == Tr!Expected(toks, gaps, lm, rm) IN
    PrintT(ToJson([toks |-> toks, gaps |-> gaps, lm |-> lm, rm |-> rm, B |-> B, G |-> G,
                   exp |-> [ok |-> e.ok, nodes |-> e.nodes, err |-> e.err,
                            text |-> IF e.ok THEN "" ELSE Tr!ApiText(w, e.err)]]))
=============================================================================
