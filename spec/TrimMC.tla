------------------------------- MODULE TrimMC -------------------------------
(* Design level for C10: the trims as ParsleyMachine executes them (LeftTrim's error priority, RightTrim moving  *)
(* ends, Seq's error rule, Parse's preference for whitespace errors) against the property statement Trim.tla,   *)
(* for every token sequence / gap strings / mode assignment of a bounded family.  Every case is exported.       *)
EXTENDS ParsleyMachine, Json, SequencesExt

CONSTANTS NTok, GapLen, GapAlphabet, Base, NSlices, Slice, DoExport

VARIABLES toks, gaps, lm, rm, rets
mvars == <<vars, toks, gaps, lm, rm, rets>>

Tr == INSTANCE Trim

Nd(k, mode, kids, ch, name) == [k |-> k, mode |-> mode, kids |-> kids, ch |-> ch, name |-> name]
TokByte(i) == 98 + i            \* c, d, e
TokName(i) == IF i = 1 THEN "was expecting \"c\"" ELSE IF i = 2 THEN "was expecting \"d\"" ELSE "was expecting \"e\""
\* nodes 3i-2 term, 3i-1 ltrim, 3i rtrim; then End; then the root SeqOf
GrammarOf(k, l, r) ==
  [n \in 1..(3 * k + 2) |->
     IF n = 3 * k + 1 THEN Nd("end", "", <<>>, 0, "")
     ELSE IF n = 3 * k + 2 THEN Nd("seq", "of", [j \in 1..(k + 1) |-> IF j <= k THEN 3 * j ELSE 3 * k + 1], 0, "")
     ELSE LET i == (n + 2) \div 3 IN
          CASE n % 3 = 1 -> Nd("term", "", <<>>, TokByte(i), TokName(i))
            [] n % 3 = 2 -> Nd("ltrim", l[i], <<n - 1>>, 0, "")
            [] OTHER -> Nd("rtrim", r[i], <<n - 1>>, 0, "")]

ModeSet == {"none", "spaces", "nl", "forcenl"}
GapStrings == UNION {[1..n -> GapAlphabet] : n \in 0..GapLen}
Cases == {<<g, l, r>> : g \in [1..(NTok + 1) -> GapStrings], l \in [1..NTok -> ModeSet], r \in [1..NTok -> ModeSet]}
CaseSeq == SetToSeq(Cases)
Chosen == {CaseSeq[i] : i \in {j \in 1..Len(CaseSeq) : j % NSlices = Slice}}

Init == \E c \in Chosen :
          LET tk == [i \in 1..NTok |-> TokByte(i)] IN
          /\ toks = tk /\ gaps = c[1] /\ lm = c[2] /\ rm = c[3] /\ rets = <<>>
          /\ InitWith(GrammarOf(NTok, c[2], c[3]), Tr!TextOf(tk, c[1]), Base, 3 * NTok + 2)

MStep == /\ Step
         /\ rets' = IF ret'.t = "ret" /\ G[stack[Len(stack)].n].k = "rtrim" /\ ret'.res # <<>> /\ ret'.err = NoErr
                    THEN Append(rets, <<ret'.res[1].s - B, ret'.res[1].e - B>>) ELSE rets
         /\ UNCHANGED <<toks, gaps, lm, rm>>
Next == MStep \/ (done /\ UNCHANGED mvars)

\* machine = property
Agrees ==
  done =>
    LET e == Tr!Expected(toks, gaps, lm, rm)
        o == ApiOutcome
    IN IF /\ e.ok <=> (o.err = NoErr)
          /\ e.ok => rets = e.nodes /\ o.node.s = B + e.nodes[1][1] /\ o.node.e = B + Len(w)
          /\ ~e.ok => o.err = Err(B + e.err[1], "ws", e.err[2])
       THEN TRUE
       ELSE Print(<<"TRIM machine differs from property", toks, gaps, lm, rm, e, o, rets>>, FALSE)
TransparentInv == Tr!Transparent(toks, gaps, lm, rm)

Export ==
  DoExport /\ done =>
    LET e == Tr!Expected(toks, gaps, lm, rm) IN
    PrintT(ToJson([toks |-> toks, gaps |-> gaps, lm |-> lm, rm |-> rm, B |-> B, G |-> G,
                   exp |-> [ok |-> e.ok, nodes |-> e.nodes, err |-> e.err,
                            text |-> IF e.ok THEN "" ELSE Tr!ApiText(w, e.err)]]))
=============================================================================
