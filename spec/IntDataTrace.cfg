CONSTANTS D = {}  MaxArgs = 0  MaxCnt = 0  MaxOps = 0  Prefix <- NoPrefix  AllowNew = TRUE
INIT TraceInit
NEXT TraceNext
INVARIANTS TypeOK EachOrdered Hwm
POSTCONDITION Accepted
CHECK_DEADLOCK FALSE
