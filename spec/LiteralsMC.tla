----------------------------- MODULE LiteralsMC -----------------------------
(* Model -> code for C08: every byte string up to MaxLen over a class-complete alphabet of the chosen parser, every   *)
(* start offset, with the outcome Literals.tla prescribes (short literals are always in range).                       *)
EXTENDS Literals, Json

CONSTANTS Parser, Alphabet, MaxLen

VARIABLES c
AllContents == UNION {[1..n -> Alphabet] : n \in 0..MaxLen}
Empty == {}
InitL == data = <<>> /\ base = 0 /\ pos = 0 /\ \E dd \in AllContents, off \in 0..MaxLen : off <= Len(dd) /\ c = <<dd, off>>
NextL == UNCHANGED <<c, data, base, pos>>

\* fixed construction parameters of the parameterised parsers
WordAB == <<97, 98>>
LexOf(p, d, off) ==
  CASE p = "integer" -> [r |-> LexInteger(d, off, TRUE), strict |-> TRUE]
    [] p = "float" -> [r |-> LexFloat(d, off, TRUE), strict |-> TRUE]
    [] p = "string" -> LexString(d, off, FALSE)
    [] p = "stringbq" -> LexString(d, off, TRUE)
    [] p = "char" -> [r |-> LexChar(d, off), strict |-> TRUE]
    [] p = "bool" -> [r |-> LexBool(d, off, <<97>>, <<98>>), strict |-> TRUE]          \* Bool("a", "b")
    [] p = "nil" -> [r |-> LexWord(d, off, WordAB), strict |-> TRUE]                    \* Nil("ab")
    [] p = "word" -> [r |-> LexWord(d, off, WordAB), strict |-> TRUE]                   \* Word("ab")
    [] p = "op" -> [r |-> LexOp(d, off, <<97, 97>>), strict |-> TRUE]                   \* Op("aa")
    [] p = "rune" -> [r |-> LexRune(d, off, 233), strict |-> TRUE]                      \* Rune('é')
    [] p = "duration" -> [r |-> LexDuration(d, off, TRUE), strict |-> TRUE]

Export ==
  LET x == LexOf(Parser, c[1], c[2]) IN
  PrintT(ToJson([p |-> Parser, d |-> c[1], off |-> c[2], strict |-> x.strict,
                 k |-> x.r.k, e |-> IF x.r.k = "node" THEN x.r.end ELSE x.r.pos,
                 nf |-> IF x.r.k = "err" THEN x.r.nf ELSE FALSE,
                 val |-> IF x.r.k = "node" THEN x.r.val ELSE <<>>]))
\* the specification itself is total and in bounds
SpecTotal == LET x == LexOf(Parser, c[1], c[2]) IN Total(c[1], c[2], IF x.r.k = "node" THEN [k |-> "node", end |-> x.r.end] ELSE [k |-> "err", pos |-> x.r.pos])
=============================================================================
