CONSTANTS D = {1, 2}  MaxArgs = 3  MaxCnt = 2  MaxOps = 3  Prefix <- NoPrefix  AllowNew = TRUE
INIT Init
NEXT Next
INVARIANTS Export
CHECK_DEADLOCK FALSE
