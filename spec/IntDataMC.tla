--------------------------- MODULE IntDataMC ---------------------------
(* Exhaustive exploration of IntData histories.                            *)
(*  IntDataMC.cfg     : invariants over all histories up to MaxOps,        *)
(*                      states identified by `vals` (VIEW), hist hidden    *)
(*  IntDataGen.cfg    : no VIEW; every history of exactly MaxOps           *)
(*                      operations is printed as one JSON line together    *)
(*                      with the expected observation of every value       *)
EXTENDS IntData, Json

View == vals

\* the integer domains of the explorations: -1 .. n-2 (a TLC configuration file has no negative literals)
DomOf1 == {0 - 1}
DomOf2 == {0 - 1, 0}
DomOf3 == {0 - 1, 0, 1}
DomOf4 == {0 - 1, 0, 1, 2}

H(op, args, a, b) == [op |-> op, args |-> args, a |-> a, b |-> b]
NoPrefix == <<>>
\* values with shared history and spare capacity, all reachable through the exported API:
\*  #1 {1,2}  #2 = #1.Insert(2) (nothing to insert)  #3 {3}  #4 {4}  #5 {2,3} built from duplicates  #6 map 1->1, 2->2  #7, #8 the package-level empty set / map
SharedPrefix == << H("NewIntSet", <<1, 2>>, 0, 0), H("Insert", <<2>>, 1, 0), H("NewIntSet", <<3>>, 0, 0),
                   H("NewIntSet", <<4>>, 0, 0), H("NewIntSet", <<2, 2, 3>>, 0, 0), H("NewIntMap", <<1, 1, 2, 2>>, 0, 0),
                   H("EmptyIntSet", <<>>, 0, 0), H("EmptyIntMap", <<>>, 0, 0) >>

ObsRec(val) == [t |-> val.t, o |-> Observe(val)]
Export ==
  Len(hist) = Len(Prefix) + MaxOps =>
     PrintT(ToJson([h |-> hist, exp |-> [i \in 1..Len(vals) |-> ObsRec(vals[i])]]))
=============================================================================
