--------------------------- MODULE IntDataMC ---------------------------
(* Exhaustive exploration of IntData histories.                            *)
(*  IntDataMC.cfg     : invariants over all histories up to MaxOps,        *)
(*                      states identified by `vals` (VIEW), hist hidden    *)
(*  IntDataGen.cfg    : no VIEW; every history of exactly MaxOps           *)
(*                      operations is printed as one JSON line together    *)
(*                      with the expected observation of every value       *)
EXTENDS IntData, Json

View == vals

ObsRec(val) == [t |-> val.t, o |-> Observe(val)]
Export ==
  Len(hist) = MaxOps =>
     PrintT(ToJson([h |-> hist, exp |-> [i \in 1..Len(vals) |-> ObsRec(vals[i])]]))
=============================================================================
