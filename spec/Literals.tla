------------------------------ MODULE Literals ------------------------------
(***************************************************************************)
(* Lexical specification of the built-in literal parsers of opsidian/parsley *)
(* (text/terminal) over BYTES: for a content d and a 0-based cursor off      *)
(*                                                                           *)
(*    Lex(parser, d, off, oracle)  =  [k |-> "node", end |-> e, val |-> v]   *)
(*                                  | [k |-> "err",  pos |-> p, nf |-> b]    *)
(*                                                                           *)
(* A node starts at off, ends right after the LONGEST literal of the parser's *)
(* documented syntax and carries the value obtained by decoding exactly those *)
(* bytes.  String and char values are decided here (escape -> code point ->   *)
(* UTF-8).  Numeric values are delegated to Go's conversions, as the property  *)
(* itself names them: the oracle record carries                              *)
(*    inrange   strconv / time accept the matched literal (no range error)     *)
(*    rx        for Regexp: length of the match of the user's expression, -1   *)
(* `val` is a byte sequence for string / char (char: the UTF-8 of the rune),   *)
(* <<>> where the value is delegated or has no bytes.                          *)
(*                                                                           *)
(* Outside the well-formed domain (Strict = FALSE: a raw line break inside a   *)
(* double-quoted string after an escape or non-ASCII byte) only totality is    *)
(* required: no panic, an error inside [off, eof] or a node inside the file.   *)
(***************************************************************************)
EXTENDS Reader

Node(e, v) == [k |-> "node", end |-> e, val |-> v]
ErrAt(p, nf) == [k |-> "err", pos |-> p, nf |-> nf]

IsHex(x) == (x >= 48 /\ x <= 57) \/ (x >= 97 /\ x <= 102) \/ (x >= 65 /\ x <= 70)
IsOct(x) == x >= 48 /\ x <= 55
IsDig(x) == x >= 48 /\ x <= 57
HexVal(x) == IF x <= 57 THEN x - 48 ELSE IF x >= 97 THEN x - 87 ELSE x - 55
Has(d, c) == c < Len(d)                      \* cursor c holds a byte
B(d, c) == d[c + 1]

RECURSIVE RunDig(_, _), RunHex(_, _), RunOct(_, _), RunNotBq(_, _)
RunDig(d, c) == IF Has(d, c) /\ IsDig(B(d, c)) THEN RunDig(d, c + 1) ELSE c
RunHex(d, c) == IF Has(d, c) /\ IsHex(B(d, c)) THEN RunHex(d, c + 1) ELSE c
RunOct(d, c) == IF Has(d, c) /\ IsOct(B(d, c)) THEN RunOct(d, c + 1) ELSE c
RunNotBq(d, c) == IF Has(d, c) /\ B(d, c) # 96 THEN RunNotBq(d, c + 1) ELSE c

\* ---- UTF-8 encoding of a code point ------------------------------------------------
Encode(cp) ==
  IF cp < 128 THEN <<cp>>
  ELSE IF cp < 2048 THEN <<192 + (cp \div 64), 128 + (cp % 64)>>
  ELSE IF cp < 65536 THEN <<224 + (cp \div 4096), 128 + ((cp \div 64) % 64), 128 + (cp % 64)>>
  ELSE <<240 + (cp \div 262144), 128 + ((cp \div 4096) % 64), 128 + ((cp \div 64) % 64), 128 + (cp % 64)>>
ValidRune(cp) == cp >= 0 /\ cp <= 1114111 /\ ~(cp >= 55296 /\ cp <= 57343)

\* ---- simple terminals ----------------------------------------------------------------
LexRune(d, off, ch) == LET r == ReadRune(d, 0, off, ch) IN IF r.ok THEN Node(r.pos, <<>>) ELSE ErrAt(off, TRUE)
LexOp(d, off, op) == IF HasPrefix(d, off, op) THEN Node(off + Len(op), <<>>) ELSE ErrAt(off, TRUE)
LexWord(d, off, wd) == LET r == MatchWord(d, 0, off, wd) IN IF r.ok THEN Node(r.pos, <<>>) ELSE ErrAt(off, TRUE)
\* Bool: the true word, else the false word; val <<1>> / <<0>>
LexBool(d, off, tw, fw) ==
  IF MatchWord(d, 0, off, tw).ok THEN Node(off + Len(tw), <<1>>)
  ELSE IF MatchWord(d, 0, off, fw).ok THEN Node(off + Len(fw), <<0>>) ELSE ErrAt(off, TRUE)

\* ---- Integer: [-+]? ( [1-9][0-9]* | 0[xX][0-9a-fA-F]+ | 0[0-7]* ), not followed by '.' ---------
IntEnd(d, off) ==            \* end of the longest integer literal at off, -1 if none
  LET c == IF Has(d, off) /\ B(d, off) \in {43, 45} THEN off + 1 ELSE off IN
  IF ~Has(d, c) \/ ~IsDig(B(d, c)) THEN 0 - 1
  ELSE IF B(d, c) # 48 THEN RunDig(d, c)
  ELSE IF Has(d, c + 1) /\ B(d, c + 1) \in {120, 88} /\ Has(d, c + 2) /\ IsHex(B(d, c + 2)) THEN RunHex(d, c + 2)
  ELSE RunOct(d, c + 1)
LexInteger(d, off, inrange) ==
  LET e == IntEnd(d, off) IN
  IF e < 0 THEN ErrAt(off, TRUE)
  ELSE IF Has(d, e) /\ B(d, e) = 46 THEN ErrAt(off, TRUE)           \* it is the beginning of a float
  ELSE IF inrange THEN Node(e, <<>>) ELSE ErrAt(off, FALSE)          \* outside int64: an error, never a panic

\* ---- Float: [-+]? [0-9]* '.' [0-9]+ ( [eE] [-+]? [0-9]+ )? --------------------------------------
FloatEnd(d, off) ==
  LET c == IF Has(d, off) /\ B(d, off) \in {43, 45} THEN off + 1 ELSE off
      i == RunDig(d, c)
  IN IF ~(Has(d, i) /\ B(d, i) = 46 /\ Has(d, i + 1) /\ IsDig(B(d, i + 1))) THEN 0 - 1
     ELSE LET f == RunDig(d, i + 1)
              s == IF Has(d, f + 1) /\ B(d, f + 1) \in {43, 45} THEN f + 2 ELSE f + 1
          IN IF Has(d, f) /\ B(d, f) \in {101, 69} /\ Has(d, s) /\ IsDig(B(d, s)) THEN RunDig(d, s) ELSE f
LexFloat(d, off, inrange) ==
  LET e == FloatEnd(d, off) IN
  IF e < 0 THEN ErrAt(off, TRUE) ELSE IF inrange THEN Node(e, <<>>) ELSE ErrAt(off, FALSE)

\* ---- escapes (strconv.UnquoteChar): <<code point, width>> or <<-1, 0>> ------------------------------
RECURSIVE HexRun(_, _, _, _)
HexRun(d, c, n, acc) == IF n = 0 THEN acc ELSE IF Has(d, c) /\ IsHex(B(d, c)) THEN HexRun(d, c + 1, n - 1, IF acc > 1114111 THEN 1114112 ELSE acc * 16 + HexVal(B(d, c))) ELSE 0 - 1
\* (values beyond U+10FFFF saturate at 1114112: TLC integers are 32-bit and such a value is not a valid rune anyway)
Escape(d, c, quote) ==       \* d[c] is a backslash
  IF ~Has(d, c + 1) THEN <<0 - 1, 0>>
  ELSE LET x == B(d, c + 1) IN
       CASE x = 97 -> <<7, 2>> [] x = 98 -> <<8, 2>> [] x = 102 -> <<12, 2>> [] x = 110 -> <<10, 2>>
         [] x = 114 -> <<13, 2>> [] x = 116 -> <<9, 2>> [] x = 118 -> <<11, 2>> [] x = 92 -> <<92, 2>>
         [] x \in {34, 39} -> IF x = quote THEN <<x, 2>> ELSE <<0 - 1, 0>>
         [] x = 120 -> LET v == HexRun(d, c + 2, 2, 0) IN IF v < 0 THEN <<0 - 1, 0>> ELSE <<v, 4>>
         [] x = 117 -> LET v == HexRun(d, c + 2, 4, 0) IN IF v < 0 \/ ~ValidRune(v) THEN <<0 - 1, 0>> ELSE <<v, 6>>
         [] x = 85 -> LET v == HexRun(d, c + 2, 8, 0) IN IF v < 0 \/ ~ValidRune(v) THEN <<0 - 1, 0>> ELSE <<v, 10>>
         [] IsOct(x) -> IF Has(d, c + 3) /\ IsOct(B(d, c + 2)) /\ IsOct(B(d, c + 3))
                        THEN LET v == (x - 48) * 64 + (B(d, c + 2) - 48) * 8 + (B(d, c + 3) - 48) IN IF v > 255 THEN <<0 - 1, 0>> ELSE <<v, 4>>
                        ELSE <<0 - 1, 0>>
         [] OTHER -> <<0 - 1, 0>>

\* ---- String --------------------------------------------------------------------------------------
\* body of a double-quoted string from cursor c: <<end cursor, decoded bytes, strict>>; stops before the closing
\* quote, a raw line break, an invalid escape or the end of the file.  special: an escape or non-ASCII byte was seen.
RECURSIVE DqBody(_, _, _, _)
DqBody(d, c, acc, special) ==
  IF ~Has(d, c) THEN <<c, acc, TRUE>>
  ELSE LET x == B(d, c) IN
       IF x = 34 THEN <<c, acc, TRUE>>
       ELSE IF x \in {10, 13} THEN (IF special THEN <<c, acc, FALSE>> ELSE <<c, acc, TRUE>>)   \* not strict: the code reads on
       ELSE IF x = 92 THEN LET e == Escape(d, c, 34) IN
                           IF e[1] < 0 THEN <<c, acc, TRUE>> ELSE DqBody(d, c + e[2], acc \o Encode(e[1]), TRUE)
       ELSE IF x < 128 THEN DqBody(d, c + 1, Append(acc, x), special)
       ELSE LET r == Decode(d, c) IN
            IF r[1] = RuneError /\ r[2] = 1 THEN DqBody(d, c + 1, Append(acc, x), TRUE)     \* invalid UTF-8: the byte is kept
            ELSE DqBody(d, c + r[2], acc \o SubSeq(d, c + 1, c + r[2]), TRUE)
\* Lex result plus strictness
LexString(d, off, allowBackquote) ==
  IF Has(d, off) /\ B(d, off) = 34
  THEN IF Has(d, off + 1) /\ B(d, off + 1) = 34 THEN [r |-> Node(off + 2, <<>>), strict |-> TRUE]
       ELSE LET b == DqBody(d, off + 1, <<>>, FALSE) IN
            IF Has(d, b[1]) /\ B(d, b[1]) = 34 THEN [r |-> Node(b[1] + 1, b[2]), strict |-> b[3]]
            ELSE [r |-> ErrAt(b[1], FALSE), strict |-> b[3]]                 \* was expecting '"' where the body stopped
  ELSE IF allowBackquote /\ Has(d, off) /\ B(d, off) = 96
  THEN IF Has(d, off + 1) /\ B(d, off + 1) = 96 THEN [r |-> Node(off + 2, <<>>), strict |-> TRUE]
       ELSE LET e == RunNotBq(d, off + 1) IN
            IF Has(d, e) THEN [r |-> Node(e + 1, SubSeq(d, off + 2, e)), strict |-> TRUE]
            ELSE [r |-> ErrAt(e, FALSE), strict |-> TRUE]
  ELSE [r |-> ErrAt(off, TRUE), strict |-> TRUE]

\* ---- Char: ' ( \[abfnrtv'] | \xhh | \uhhhh | \Uhhhhhhhh | any one rune except ' ) ' -----------------------
LexChar(d, off) ==
  IF ~(Has(d, off) /\ B(d, off) = 39) THEN ErrAt(off, TRUE)
  ELSE LET c == off + 1 IN
       IF ~Has(d, c) \/ B(d, c) = 39 THEN ErrAt(c, FALSE)                        \* was expecting one character
       ELSE LET esc == IF B(d, c) = 92 /\ Has(d, c + 1) /\ B(d, c + 1) \in {97, 98, 102, 110, 114, 116, 118, 39, 120, 117, 85}
                       THEN (IF B(d, c + 1) \in {120, 117, 85}
                             THEN LET n == IF B(d, c + 1) = 120 THEN 2 ELSE IF B(d, c + 1) = 117 THEN 4 ELSE 8 IN
                                  IF HexRun(d, c + 2, n, 0) >= 0 THEN n + 2 ELSE 0
                             ELSE 2)
                       ELSE 0
                w == IF esc > 0 THEN esc ELSE Decode(d, c)[2]                      \* the escape, else any one rune
                q == c + w
            IN IF ~(Has(d, q) /\ B(d, q) = 39) THEN ErrAt(q, FALSE)                \* was expecting "'"
               ELSE IF esc > 0
                    THEN LET e == Escape(d, c, 39) IN
                         IF e[1] < 0 THEN ErrAt(q + 1, FALSE) ELSE Node(q + 1, Encode(e[1]))     \* e.g. \U with an invalid code point
                    ELSE IF B(d, c) = 92 THEN ErrAt(q + 1, FALSE)                  \* a lone backslash is not a character value
                    ELSE LET r == Decode(d, c) IN Node(q + 1, Encode(r[1]))

\* ---- TimeDuration: [-+]? ( [0-9]+ (\.[0-9]+)? (ns|us|µs|μs|ms|s|m|h) )+ -----------------------------------
UnitLen(d, c) ==
  IF HasPrefix(d, c, <<110, 115>>) \/ HasPrefix(d, c, <<117, 115>>) \/ HasPrefix(d, c, <<109, 115>>) THEN 2
  ELSE IF HasPrefix(d, c, <<194, 181, 115>>) \/ HasPrefix(d, c, <<206, 188, 115>>) THEN 3
  ELSE IF Has(d, c) /\ B(d, c) \in {115, 109, 104} THEN 1 ELSE 0
RECURSIVE DurGroups(_, _)
DurGroups(d, c) ==           \* end after as many groups as possible starting at c (c itself if none)
  IF ~(Has(d, c) /\ IsDig(B(d, c))) THEN c
  ELSE LET i == RunDig(d, c)
           f == IF Has(d, i) /\ B(d, i) = 46 /\ Has(d, i + 1) /\ IsDig(B(d, i + 1)) THEN RunDig(d, i + 1) ELSE i
           u == UnitLen(d, f)
           u2 == UnitLen(d, i)        \* the fraction is optional: the unit may directly follow the integer part
       IN IF u > 0 THEN DurGroups(d, f + u) ELSE IF u2 > 0 THEN DurGroups(d, i + u2) ELSE c
LexDuration(d, off, inrange) ==
  LET c == IF Has(d, off) /\ B(d, off) \in {43, 45} THEN off + 1 ELSE off
      e == DurGroups(d, c)
  IN IF e = c THEN ErrAt(off, TRUE) ELSE IF inrange THEN Node(e, <<>>) ELSE ErrAt(off, FALSE)

\* ---- Regexp: relative to the oracle --------------------------------------------------------------------------
LexRegexp(d, off, rx) == IF off >= Len(d) \/ rx < 0 THEN ErrAt(off, TRUE) ELSE Node(off + rx, <<>>)

\* ---- totality (the weak requirement that holds for every input) -----------------------------------------------
Total(d, off, ob) ==      \* ob: the observed outcome [k, end|pos]
  IF ob.k = "node" THEN ob.end >= off /\ ob.end <= Len(d) ELSE ob.pos >= off /\ ob.pos <= Len(d)
=============================================================================
