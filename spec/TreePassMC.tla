----------------------------- MODULE TreePassMC -----------------------------
(* Families of trees for TreePass: all shapes up to MaxNodes (parent vectors), all assignments of node kinds and   *)
(* interpreter capabilities when Labelled; export of the expected event logs of every pass and every injection.    *)
EXTENDS TreePass, Json

CONSTANTS MaxNodes, Labelled, DoExport

Nd(k, cap, kids) == [k |-> k, cap |-> cap, kids |-> kids]
\* parent vectors: p[i] < i for i in 2..n (p[1] = 0)
ParentVecs(n) == {p \in [1..n -> 0..(n - 1)] : p[1] = 0 /\ \A i \in 2..n : p[i] >= 1 /\ p[i] < i}
RECURSIVE AscSeq(_)
AscSeq(S) == IF S = {} THEN <<>> ELSE LET m == CHOOSE x \in S : \A y \in S : x <= y IN <<m>> \o AscSeq(S \ {m})
KidsIn(p, i) == AscSeq({j \in DOMAIN p : p[j] = i})
Caps == {"plain", "checker", "transformer", "both", "none", "keep"}
\* plain shapes: inner nodes are plain non-terminals, leaves are terminals
ShapeTree(p) == [i \in DOMAIN p |-> IF KidsIn(p, i) = <<>> THEN Nd("term", "", <<>>) ELSE Nd("nt", "plain", KidsIn(p, i))]
\* labelled: a leaf is a terminal, an Empty node or a childless non-terminal of any capability
LeafOpts == {Nd("term", "", <<>>), Nd("empty", "", <<>>)} \cup {Nd("nt", c, <<>>) : c \in Caps}
LeafIdx(p) == {i \in DOMAIN p : KidsIn(p, i) = <<>>}
LabelledTrees(p) ==
  {[i \in DOMAIN p |-> IF i \in LeafIdx(p) THEN l[i] ELSE Nd("nt", c[i], KidsIn(p, i))] :
      l \in [LeafIdx(p) -> LeafOpts], c \in [(DOMAIN p) \ LeafIdx(p) -> Caps]}
AllTrees == UNION {IF Labelled THEN UNION {LabelledTrees(p) : p \in ParentVecs(n)} ELSE {ShapeTree(p) : p \in ParentVecs(n)} : n \in 1..MaxNodes}
AllStops == 0..(MaxNodes + 2)
Bools == {TRUE, FALSE}
NoList == {FALSE}
NoStop == {0}

\* one line per tree (printed at the initial state of the Walk machine for stopK = 0, no list)
Export ==
  (DoExport /\ visited = <<>> /\ result = "run") =>
    PrintT(ToJson([tree |-> tree, list |-> list, stopK |-> stopK,
      walk |-> [log |-> EmptyAs(tree, WalkLog(tree, list, stopK)), stopped |-> WalkResult(tree, list, stopK)],
      passes |-> IF list \/ stopK # 0 THEN <<>> ELSE
        [f \in 1..(Len(tree) + 1) |->
           LET failAt == f - 1
               tl == TransformLog(tree, failAt, 1)
               el == EvalLog(tree, failAt, 1)
           IN [failAt |-> failAt,
               check |-> [log |-> CheckLog(tree, failAt), failed |-> CheckFails(tree, failAt),
                          schemas |-> [n \in 1..Len(tree) |-> FinalSchema(tree, failAt, n)]],
               check2 |-> SecondCheck(tree),
               eval2 |-> IF Evaluable(tree) THEN SecondEval(tree) ELSE [log |-> <<>>, failed |-> FALSE],
               transform |-> [log |-> tl[1], failed |-> tl[2], result |-> IF tl[2] THEN "" ELSE RenderT(tree, 1)],
               api |-> LET a1 == ParseApiLog(tree, failAt, 0) a2 == ParseApiLog(tree, 0, failAt) IN
                       [tlog1 |-> a1[1], clog1 |-> a1[2], failed1 |-> a1[3], tlog2 |-> a2[1], clog2 |-> a2[2], failed2 |-> a2[3]],
               eval |-> IF Evaluable(tree) THEN [log |-> el[1], failed |-> el[2], skip |-> FALSE]
                        ELSE [log |-> <<>>, failed |-> FALSE, skip |-> TRUE]]]]))
=============================================================================
