------------------------------ MODULE TrimTrace ------------------------------
(* Judge for C10: outcomes of the real trims on recorded cases.  A line is                                     *)
(*  {"toks":[..],"gaps":[[..],..],"lm":[..],"rm":[..],"B":b,                                                  *)
(*   "ok":bool,"nodes":[[s,e],..],"vals":[..],"err":[pos,kind,msg]|[],"text":"..."}   (positions global)       *)
(* gaps are the RAW bytes (may contain CR LF pairs, which the file normalises to LF).                          *)
EXTENDS Integers, Sequences, FiniteSets, TLC, Json, IOUtils

Trace == ndJsonDeserialize(IOEnv.TRACE)
VARIABLE l
ASSUME TLCSet(42, 0)
Ev == Trace[l]
Tr == INSTANCE Trim

RECURSIVE Norm(_)
Norm(raw) ==
  IF raw = <<>> THEN <<>>
  ELSE IF Len(raw) >= 2 /\ raw[1] = 13 /\ raw[2] = 10 THEN <<10>> \o Norm(SubSeq(raw, 3, Len(raw)))
  ELSE <<raw[1]>> \o Norm(Tail(raw))

LineOK ==
  LET g == [i \in 1..Len(Ev.gaps) |-> Norm(Ev.gaps[i])]
      e == Tr!Expected(Ev.toks, g, Ev.lm, Ev.rm)
      txt == Tr!TextOf(Ev.toks, g)
  IN /\ "panic" \notin DOMAIN Ev
     /\ Ev.ok = e.ok                                                        \* accepted precisely when every run satisfies its mode
     /\ e.ok => /\ Ev.nodes = [i \in 1..Len(e.nodes) |-> <<Ev.B + e.nodes[i][1], Ev.B + e.nodes[i][2]>>]   \* start / end of every token
                /\ Ev.vals = Ev.toks                                         \* values unchanged: whitespace is transparent
     /\ ~e.ok => /\ Ev.err = <<Ev.B + e.err[1], "ws", e.err[2]>>             \* that mode's error at the prescribed position
                 /\ Ev.text = Tr!ApiText(txt, e.err)

TraceInit == l = 1
TraceNext == l <= Len(Trace) /\ l' = l + 1 /\ LineOK
Hwm == TLCSet(42, IF l > TLCGet(42) THEN l ELSE TLCGet(42))
Accepted == IF TLCGet(42) = Len(Trace) + 1 THEN TRUE ELSE Print(<<"REJECTED at line", TLCGet(42)>>, FALSE)
=============================================================================
