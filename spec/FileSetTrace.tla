---------------------------- MODULE FileSetTrace ----------------------------
(* Trace validation for C11: file sets built with the real parsley.FileSet / text.File.  A line is      *)
(*   {"ev":"reset"}                                          a new file set                             *)
(*   {"ev":"add","name":..,"raw":[..],"len":n,"base":b}      AddFile; len / base as the real code reports *)
(*   {"ev":"q","pos":p,"s":"..."}                            FileSet.Position(p).String()               *)
(*   {"ev":"fq","file":i,"off":o,"pos":p,"s":"..."}          File.Pos(o) and File.Position(o).String()  *)
EXTENDS FileSet, Json, IOUtils

Trace == ndJsonDeserialize(IOEnv.TRACE)
VARIABLE l
NoNames == <<>>
tvars == <<vars, l>>
ASSUME TLCSet(42, 0)
Ev == Trace[l]

TraceInit == Init /\ l = 1

TraceStep ==
  CASE Ev.ev = "reset" -> files' = <<>> /\ next' = 1
    [] Ev.ev = "add" -> /\ DoAddFile(Ev.name, Ev.raw)
                        /\ Ev.base = next                       \* File.Pos(0) of the new file
                        /\ Ev.len = Len(Norm(Ev.raw))           \* File.Len()
    [] Ev.ev = "q" -> Position(Ev.pos) = Ev.s /\ UNCHANGED vars
    [] Ev.ev = "fq" -> /\ FilePos(Ev.file, Ev.off) = Ev.pos
                       /\ FilePosition(Ev.file, Ev.off) = Ev.s
                       /\ UNCHANGED vars
    [] OTHER -> FALSE

TraceNext == l <= Len(Trace) /\ l' = l + 1 /\ TraceStep
Hwm == TLCSet(42, IF l > TLCGet(42) THEN l ELSE TLCGet(42))
Accepted == IF TLCGet(42) = Len(Trace) + 1 THEN TRUE ELSE Print(<<"REJECTED at line", TLCGet(42)>>, FALSE)
=============================================================================
