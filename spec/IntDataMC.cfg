CONSTANTS D = {1, 2, 3}  MaxArgs = 3  MaxCnt = 2  MaxOps = 4  Prefix <- NoPrefix  AllowNew = TRUE
INIT Init
NEXT Next
VIEW View
INVARIANTS TypeOK EachOrdered Algebra
PROPERTY Persistent
CHECK_DEADLOCK FALSE
