------------------------------ MODULE C17Trace ------------------------------
(* Judge for C17 on the call counts measured on the REAL combinators.  One line per (family, n):                     *)
(*   {"fam":f,"n":n,"calls1":c,"calls2":c,"ok":bool,"exp":bool}   two runs of the same (grammar object, input);       *)
(*   fam = family/variant: "good" inputs are in the family's language, "bad" ones are not (exp = which)               *)
(* Property: for every family and every n >= MinN for which 2n was also measured: calls(2n) <= 16 * calls(n);        *)
(* the call count of a given grammar and input is the same on every run; the inputs are accepted.                    *)
EXTENDS Integers, Sequences, FiniteSets, TLC, Json, IOUtils

CONSTANT MinN
Trace == ndJsonDeserialize(IOEnv.TRACE)
VARIABLE l
ASSUME TLCSet(42, 0)
Ev == Trace[l]

Rows(f) == {i \in 1..Len(Trace) : Trace[i].fam = f}
\* closest measured size to 2n (the families round n to their shape: 2n or 2n +- 1)
Double(i) == {j \in Rows(Trace[i].fam) : Trace[j].n >= 2 * Trace[i].n - 1 /\ Trace[j].n <= 2 * Trace[i].n + 1}

LineOK ==
  /\ Ev.ok = Ev.exp                                      \* inputs of the family's language are parsed, the others are rejected
  /\ Ev.calls1 = Ev.calls2                               \* deterministic call count
  /\ Ev.n >= MinN => \A j \in Double(l) :
        IF Trace[j].calls1 <= 16 * Ev.calls1 THEN TRUE
        ELSE Print(<<"C17 doubling the input multiplies the call count by more than 16", Ev.fam, Ev.n, Ev.calls1, Trace[j].n, Trace[j].calls1>>, FALSE)

TraceInit == l = 1
TraceNext == l <= Len(Trace) /\ l' = l + 1 /\ LineOK
Hwm == TLCSet(42, IF l > TLCGet(42) THEN l ELSE TLCGet(42))
Accepted == IF TLCGet(42) = Len(Trace) + 1 THEN TRUE ELSE Print(<<"REJECTED at line", TLCGet(42)>>, FALSE)
\* non-vacuity: at least one doubling pair per family was judged
=============================================================================
