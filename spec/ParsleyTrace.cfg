CONSTANTS PinnedSeqReset = FALSE  PinnedAnyDrop = FALSE  JudgeOnly = FALSE
INIT TraceInit
NEXT TraceNext
INVARIANTS Hwm TraceReentryBound
POSTCONDITION Accepted
CHECK_DEADLOCK FALSE
