----------------------------- MODULE JsonDocMC -----------------------------
(* Model -> code for C16: every abstract value of a bounded family x whitespace patterns x corruptions, rendered,    *)
(* classified, with the structure the evaluation must have.                                                          *)
EXTENDS JsonDoc, Json, SequencesExt

CONSTANTS MaxMembers, NSlices, Slice, OnlyScalars

VARIABLE c
S(i) == <<"s", i>>
AllScalars == {S(i) : i \in 1..Len(Scalars)}
\* depth 1 values: scalars; arrays / objects of up to MaxMembers scalars (keys may repeat)
Seqs(n, X) == UNION {[1..m -> X] : m \in 0..n}
Depth1 == AllScalars \cup {<<"arr", xs>> : xs \in Seqs(MaxMembers, {S(1), S(6), S(9), S(12), S(14), S(15), S(19)})}
                     \cup {<<"obj", ms>> : ms \in Seqs(MaxMembers, {<<k, x>> : k \in {1, 2, 3}, x \in {S(1), S(7), S(11), S(13)}})}
\* depth 2: containers of a few depth-1 containers and scalars
Inner == {<<"arr", <<>>>>, <<"arr", <<S(6), S(3)>>>>, <<"obj", <<>>>>, <<"obj", <<<<2, S(8)>>, <<2, S(12)>>>>>>, <<"obj", <<<<1, S(10)>>, <<4, S(5)>>>>>>, S(2), S(16)}
Depth2 == {<<"arr", xs>> : xs \in Seqs(2, Inner)} \cup {<<"obj", ms>> : ms \in Seqs(2, {<<k, x>> : k \in {2, 4}, x \in Inner})}
Patterns == {<<1>>, <<2>>, <<3>>, <<1, 2, 4>>, <<2, 1, 1, 3>>, <<5, 1, 2>>, <<1, 1, 3, 1, 2>>, <<6>>, <<7, 1, 1>>}
Values == IF OnlyScalars THEN AllScalars \cup {<<"arr", <<x>>>> : x \in AllScalars} ELSE Depth1 \cup Depth2
Cases == {<<v, pat>> : v \in Values, pat \in Patterns}
CaseSeq == SetToSeq(Cases)
Init == c \in {CaseSeq[i] : i \in {j \in 1..Len(CaseSeq) : j % NSlices = Slice}}
Next == UNCHANGED c

CorsOf(v, ts) == {<<"none", 0>>} \cup {cor \in ({"trunc", "drop"} \X (1..Len(ts))) \cup ({"trail"} \X (1..Len(Trailers))) \cup ({"comma"} \X (1..(Len(ts) + 1))) : Applicable(v, ts, cor)}
Export ==
  LET v == c[1] pat == c[2] ts == DocTokens(v, pat) IN
  \A cor \in CorsOf(v, ts) :
     PrintT(ToJson([v |-> v, pat |-> pat, cor |-> cor, text |-> Text(Corrupt(ts, cor)),
                    class |-> DocClass(v, pat, cor), skel |-> Skel(v)]))
=============================================================================
