CONSTANTS Trees <- Empty Lists <- Empty StopKs <- Empty
INIT TraceInit
NEXT TraceNext
INVARIANTS Hwm
POSTCONDITION Accepted
CHECK_DEADLOCK FALSE
