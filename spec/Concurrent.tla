----------------------------- MODULE Concurrent -----------------------------
(***************************************************************************)
(* C14: a parser graph built once is used by N goroutines at the same time,  *)
(* each with its own context, reader and input; parsers may also be          *)
(* constructed concurrently.                                                 *)
(*                                                                           *)
(* The contract: the runs share no mutable state.  Every run is an instance   *)
(* of ParsleyMachine over its OWN variables (context, cache, counters,        *)
(* reader), so the only way two runs can interfere is through a location that  *)
(* is not part of the machine's per-run state: a package-level variable or a   *)
(* variable captured by a parser closure.  Accesses is the table of such       *)
(* locations that the current sources of /repo write (extracted statically by  *)
(* tools/sharedvars and passed in as SharedLocs.tla):                          *)
(*    [loc, fn, mode]   mode "w" plain write, "addr" address taken (possible   *)
(*                      write through the pointer), "aw" atomic write          *)
(*                                                                           *)
(* The model: every process repeatedly executes one of the functions of the    *)
(* table (a parse or a construction may call any of them, in any order), all   *)
(* interleavings; `seen` records which process touched which location how.     *)
(* NoConflict: no location has a plain (or through-pointer) write by one       *)
(* process and any access by another one.  SoloEqual is stated on the recorded *)
(* executions of the real code (C14Trace).                                     *)
(***************************************************************************)
EXTENDS Integers, Sequences, FiniteSets, TLC, Json

CONSTANTS N, MaxSteps, Accesses

VARIABLES seen, steps, sched
vars == <<seen, steps, sched>>

Procs == 1..N
Init == seen = {} /\ steps = 0 /\ sched = <<>>
Touch(p) == \E a \in Accesses : seen' = seen \cup {<<p, a.loc, a.mode>>}
\* sched: which process made each step (history variable): the interleavings the gated harness replays
Next == /\ steps < MaxSteps
        /\ steps' = steps + 1
        /\ \E p \in Procs : (IF Accesses = {} THEN seen' = seen ELSE Touch(p)) /\ sched' = Append(sched, p)
Idle == steps = MaxSteps /\ UNCHANGED vars
Spec == Init /\ [][Next \/ Idle]_vars

Plain(m) == m \in {"w", "addr"}
NoConflict == \A x \in seen, y \in seen : (x[1] # y[1] /\ x[2] = y[2]) => ~Plain(x[3]) /\ ~Plain(y[3])
\* the same statement on the table itself (what NoConflict amounts to once two processes have run every function)
Suspects == {a \in Accesses : Plain(a.mode)}
\* every complete interleaving is printed once (VIEW = sched in the export configuration)
ExportSched == steps = MaxSteps => PrintT(ToJson(sched))
SchedView == sched
=============================================================================
