-------------------------------- MODULE Arith --------------------------------
(***************************************************************************)
(* Reference evaluator for the classic left-recursive arithmetic grammar of  *)
(* property C05, over the BYTES of the input (the parser is scannerless):     *)
(*                                                                           *)
(*     expr   -> expr {+,-} term | term                                      *)
(*     term   -> term {x,/} factor | factor      (x = the asterisk)          *)
(*     factor -> ( expr ) | [+-]? decimal-integer-literal                    *)
(*                                                                           *)
(* with free whitespace (SP, TAB, LF, FF) around every token.  Operators are  *)
(* left-associative with the usual precedence, division truncates toward      *)
(* zero, and the first division by zero in evaluation order (left operand,    *)
(* right operand, then the operator) is reported at the byte offset of the    *)
(* offending operator.  The reference is a recursive-descent evaluator of the *)
(* equivalent right-iterative grammar, so it shares nothing with the          *)
(* memoising left-recursive implementation.                                   *)
(*                                                                           *)
(* A sign belongs to a literal exactly where a factor is expected (after an   *)
(* operator, after "(" or at the start), as in the scannerless grammar.       *)
(* Literals with a leading zero followed by more digits / x (octal and hex in *)
(* Go's syntax) are outside the modelled domain ("unmodelled").               *)
(***************************************************************************)
EXTENDS Integers, Sequences, FiniteSets, TLC

IsWsA(x) == x \in {32, 9, 10, 12}
IsDigit(x) == x >= 48 /\ x <= 57

RECURSIVE SkipA(_, _)
SkipA(t, i) == IF i <= Len(t) /\ IsWsA(t[i]) THEN SkipA(t, i + 1) ELSE i     \* i: 1-based index of the next byte

\* results: [k |-> "v", v |-> value, i |-> next index] | [k |-> "dz", pos |-> 0-based offset of the operator]
\*          | [k |-> "ill"] | [k |-> "unmodelled"]
V(v, i) == [k |-> "v", v |-> v, i |-> i]
Ill == [k |-> "ill"]
Unm == [k |-> "unmodelled"]
DZ(p) == [k |-> "dz", pos |-> p]

RECURSIVE DigitsVal(_, _, _)
DigitsVal(t, i, acc) == IF i <= Len(t) /\ IsDigit(t[i]) THEN DigitsVal(t, i + 1, acc * 10 + (t[i] - 48)) ELSE <<acc, i>>

\* truncating division (Go's int64 /)
TruncDiv(a, b) == LET q == (IF a < 0 THEN 0 - a ELSE a) \div (IF b < 0 THEN 0 - b ELSE b)
                  IN IF (a < 0) # (b < 0) THEN 0 - q ELSE q

RECURSIVE Expr(_, _), Term(_, _), Factor(_, _), ExprLoop(_, _, _), TermLoop(_, _, _)
Factor(t, i0) ==
  LET i == SkipA(t, i0) IN
  IF i > Len(t) THEN Ill
  ELSE IF t[i] = 40                                               \* (
       THEN LET e == Expr(t, i + 1) IN
            IF e.k # "v" THEN e
            ELSE LET j == SkipA(t, e.i) IN
                 IF j <= Len(t) /\ t[j] = 41 THEN V(e.v, j + 1) ELSE Ill
       ELSE LET signed == t[i] \in {43, 45}
                d == IF signed THEN i + 1 ELSE i
            IN IF d > Len(t) \/ ~IsDigit(t[d]) THEN Ill
               ELSE IF t[d] = 48 /\ d + 1 <= Len(t) /\ (IsDigit(t[d + 1]) \/ t[d + 1] \in {120, 88}) THEN Unm
               ELSE LET r == DigitsVal(t, d, 0) IN
                    IF r[2] <= Len(t) /\ t[r[2]] = 46 THEN Unm      \* "1." is not an integer literal for the library
                    ELSE V(IF signed /\ t[i] = 45 THEN 0 - r[1] ELSE r[1], r[2])
TermLoop(t, acc, i0) ==
  LET i == SkipA(t, i0) IN
  IF i <= Len(t) /\ t[i] \in {42, 47}
  THEN LET f == Factor(t, i + 1) IN
       IF f.k # "v" THEN (IF f.k = "ill" THEN V(acc, i0) ELSE f)   \* no factor after the operator: the term ends before it
       ELSE IF t[i] = 47 /\ f.v = 0 THEN DZ(i - 1)
       ELSE TermLoop(t, IF t[i] = 42 THEN acc * f.v ELSE TruncDiv(acc, f.v), f.i)
  ELSE V(acc, i0)
Term(t, i) == LET f == Factor(t, i) IN IF f.k # "v" THEN f ELSE TermLoop(t, f.v, f.i)
ExprLoop(t, acc, i0) ==
  LET i == SkipA(t, i0) IN
  IF i <= Len(t) /\ t[i] \in {43, 45}
  THEN LET f == Term(t, i + 1) IN
       IF f.k # "v" THEN (IF f.k = "ill" THEN V(acc, i0) ELSE f)
       ELSE ExprLoop(t, IF t[i] = 43 THEN acc + f.v ELSE acc - f.v, f.i)
  ELSE V(acc, i0)
Expr(t, i) == LET f == Term(t, i) IN IF f.k # "v" THEN f ELSE ExprLoop(t, f.v, f.i)

\* the whole input: a value, a division by zero at an offset, ill-formed, or outside the modelled domain
Eval(t) ==
  LET e == Expr(t, 1) IN
  IF e.k = "v" THEN (IF SkipA(t, e.i) > Len(t) THEN [k |-> "v", v |-> e.v] ELSE Ill)
  ELSE e

\* CAVEAT of the right-iterative formulation: when an operator is NOT followed by a valid operand the loop stops
\* before it and the leftover makes the whole input ill-formed, which is also what the grammar says.  A division by
\* zero inside an input that is ill-formed further to the right is still "ill" for the grammar; the evaluator above
\* may have answered "dz" first.  IllFormedFirst decides well-formedness without evaluating.
RECURSIVE WExpr(_, _), WTerm(_, _), WFactor(_, _), WLoop(_, _, _)
WFactor(t, i0) ==
  LET i == SkipA(t, i0) IN
  IF i > Len(t) THEN 0
  ELSE IF t[i] = 40 THEN LET e == WExpr(t, i + 1) IN
                         IF e = 0 THEN 0 ELSE LET j == SkipA(t, e) IN IF j <= Len(t) /\ t[j] = 41 THEN j + 1 ELSE 0
  ELSE LET d == IF t[i] \in {43, 45} THEN i + 1 ELSE i IN
       IF d > Len(t) \/ ~IsDigit(t[d]) THEN 0 ELSE DigitsVal(t, d, 0)[2]
WLoop(t, ops, i0) ==     \* ops: the operator bytes of this level; operands are one level down
  LET i == SkipA(t, i0) IN
  IF i <= Len(t) /\ t[i] \in ops
  THEN LET n == IF ops = {42, 47} THEN WFactor(t, i + 1) ELSE WTerm(t, i + 1) IN
       IF n = 0 THEN i0 ELSE WLoop(t, ops, n)
  ELSE i0
WTerm(t, i) == LET f == WFactor(t, i) IN IF f = 0 THEN 0 ELSE WLoop(t, {42, 47}, f)
WExpr(t, i) == LET f == WTerm(t, i) IN IF f = 0 THEN 0 ELSE WLoop(t, {43, 45}, f)
WellFormed(t) == LET e == WExpr(t, 1) IN e # 0 /\ SkipA(t, e) > Len(t)

\* the outcome the property prescribes
Outcome(t) ==
  LET e == Eval(t) IN
  IF e.k = "unmodelled" THEN e
  ELSE IF ~WellFormed(t) THEN Ill
  ELSE e

\* rendering of a byte offset as line:column of the file "f"
LineOfA(t, c) == 1 + Cardinality({i \in 1..c : t[i] = 10})
RECURSIVE LastLFA(_, _)
LastLFA(t, c) == IF c = 0 THEN 0 ELSE IF t[c] = 10 THEN c ELSE LastLFA(t, c - 1)
DivZeroText(t, pos) == "division by zero at f:" \o ToString(LineOfA(t, pos)) \o ":" \o ToString(pos - LastLFA(t, pos) + 1)
=============================================================================
