--------------------------- MODULE FileSetAbsInd ---------------------------
(* Apalache obligations for FileSetAbs:  Init => IndInv  (--init=Init --inv=IndInv --length=0),                      *)
(* IndInv /\ Next => IndInv'  (--init=IndInit --inv=IndInv --length=1),  IndInv => Safe, IndInv => Injective          *)
(* (--init=IndInit --length=0).  Gen(6) is an arbitrary sequence of up to 6 files with arbitrary integers.            *)
EXTENDS FileSetAbs, Apalache
IndInit == files = Gen(6) /\ next = Gen(1) /\ IndInv
=============================================================================
