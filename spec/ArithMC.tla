------------------------------ MODULE ArithMC ------------------------------
(* Model -> code for C05: every token sequence up to MaxTok tokens over a small token alphabet (well-formed and     *)
(* ill-formed alike), rendered with a whitespace pattern in the gaps, with the outcome Arith!Outcome prescribes.    *)
EXTENDS Arith, Json, SequencesExt

CONSTANTS MaxTok, NSlices, Slice

VARIABLE c
\* tokens as byte strings: 0 1 2 3 7 12 + - * / ( )
Tokens == {<<48>>, <<49>>, <<50>>, <<51>>, <<55>>, <<49, 50>>, <<43>>, <<45>>, <<42>>, <<47>>, <<40>>, <<41>>}
GapSets == << <<<<>>, <<>>, <<>>>>, <<<<32>>, <<32>>, <<32>>>>, <<<<>>, <<32>>, <<10>>>>, <<<<10>>, <<32, 9>>, <<>>>>, <<<<12>>, <<>>, <<32, 32>>>>, <<<<10, 10>>, <<>>, <<10, 32, 10>>>> >>
RECURSIVE Render(_, _, _)
Render(ts, gs, i) == IF i > Len(ts) THEN gs[(i % 3) + 1] ELSE gs[(i % 3) + 1] \o ts[i] \o Render(ts, gs, i + 1)
TokSeq == SetToSeq(Tokens)
TokIdx(t) == CHOOSE i \in 1..Len(TokSeq) : TokSeq[i] = t
\* the cases are enumerated, never constructed as one set; a slice = the sequences whose first two tokens fall into it
Init == \E n \in 1..MaxTok : \E ts \in [1..n -> Tokens] : \E g \in 1..Len(GapSets) :
          /\ (TokIdx(ts[1]) + (IF n >= 2 THEN 12 * TokIdx(ts[2]) ELSE 0)) % NSlices = Slice
          /\ c = <<ts, g>>
Next == UNCHANGED c
TextOfCase == Render(c[1], GapSets[c[2]], 1)
Export ==
  LET t == TextOfCase o == Outcome(t) IN
  PrintT(ToJson([text |-> t, k |-> o.k, v |-> IF o.k = "v" THEN o.v ELSE 0,
                 msg |-> IF o.k = "dz" THEN DivZeroText(t, o.pos) ELSE ""]))
\* sanity of the reference: evaluation and recognition agree on what is well-formed
Consistent == LET t == TextOfCase e == Eval(t) IN (e.k = "v") => WellFormed(t)
=============================================================================
