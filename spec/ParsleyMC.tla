------------------------------ MODULE ParsleyMC ------------------------------
(***************************************************************************)
(* Exhaustive exploration of ParsleyMachine over a bounded grammar family    *)
(* and every input up to a bounded length, against the denotational oracle.  *)
(* One behaviour = one (grammar, input, base): the Sentence root is parsed   *)
(* at the first byte, then every memoised nonterminal is asked at every      *)
(* position on the same warm context ("asks").                               *)
(*                                                                           *)
(* Checked in every state: ReentryBound (C02), AtMostOnce for grammars       *)
(* without left recursion (C03).  At the end of every top-level call:        *)
(* Complete/Sound against Derivation!Ends for the call and for every         *)
(* context-free cache entry (C01), node-xor-error and Sentence <=> whole     *)
(* input (C04), the furthest-failure bound of the reported error (C06).      *)
(* At the end of the behaviour the case with every expected outcome is       *)
(* printed as JSON for the model->code replay.                               *)
(***************************************************************************)
EXTENDS ParsleyMachine, Grammar, Json, SequencesExt

CONSTANTS Fam,        \* which family: "F1" "F2" "NM" "HID" "HID2" "F3" "OPT" "LINES" "CAT"
          MaxLen,     \* inputs: all strings over Alphabet of length 0..MaxLen
          Alphabet,   \* byte values
          Base,       \* base offset of the parsed file (1 = alone in its file set)
          NSlices, Slice,   \* explore the bodies whose index = Slice (mod NSlices)
          MaxCalls, MaxDepth, MaxRes,   \* budget: a run that exceeds it is cut and not judged
          Wrap,       \* extra Memoize wrappers (C03): "none" | "all" (every node) | "odd" | "even" (nodes with odd / even id)
          TwoPhase,   \* TRUE: after the memoised run the same asks are repeated on the grammar with every Memoize removed (C03)
          NameAll,    \* TRUE: every Any/Choice of the family's grammars carries a Name (C06)
          DoExport    \* print the cases for the replay

VARIABLES askq, cur, outs, phase, first
mvars == <<vars, askq, cur, outs, phase, first>>

D == INSTANCE Derivation

FamilySet == CASE Fam = "F1" -> {<<b>> : b \in F1Bodies}
               [] Fam = "F2" -> {<<b>> : b \in F2Bodies}
               [] Fam = "NM" -> {<<b>> : b \in NMBodies}
               [] Fam = "HID" -> {<<b>> : b \in HiddenBodies}
               [] Fam = "F3" -> F3Pairs
               [] Fam = "HID2" -> Hidden2Pairs
               [] Fam = "TSH" -> TrimShare
               [] Fam = "SNG" -> SingleBodies
               [] Fam = "TLR" -> TrimLR
               [] Fam = "HIDR" -> HiddenRight
               [] Fam = "OPTLR" -> OptLR
               [] Fam = "LRN" -> LRNullPrefix
               [] Fam = "TRNL" -> TrimNl
               [] Fam = "DUPS" -> DupAndSuppress
               [] Fam = "SEPC" -> {<<b>> : b \in SepComposite}
               [] Fam = "LRF" -> {<<b>> : b \in LRFreeBodies}
               [] Fam = "OPT" -> {<<b>> : b \in OptBodies}
               [] Fam = "LINES" -> {<<b>> : b \in LineBodies}
               [] OTHER -> Catalogue
FamilySeq == SetToSeq(FamilySet)
Chosen == {FamilySeq[i] : i \in {j \in 1..Len(FamilySeq) : j % NSlices = Slice}}
Inputs == UNION {[1..n -> Alphabet] : n \in 0..MaxLen}

\* the asks that follow the root call: every nonterminal at every position
AsksOf(b, ww) == LET nts == SetToSortSeq(b.nts, <)
                 IN [i \in 1..(Len(nts) * (Len(ww) + 1)) |->
                        <<nts[((i - 1) \div (Len(ww) + 1)) + 1], Base + ((i - 1) % (Len(ww) + 1))>>]

Init == \E bodies \in Chosen, ww \in Inputs :
          LET b == Build(bodies)
              g1 == IF NameAll THEN NameAllG(b.G) ELSE b.G
              g2 == CASE Wrap = "all" -> MemoWrapG(g1, (1..Len(g1)) \ {b.root})
                      [] Wrap = "odd" -> MemoWrapG(g1, {i \in 1..Len(g1) : i % 2 = 1 /\ i # b.root})
                      [] Wrap = "even" -> MemoWrapG(g1, {i \in 1..Len(g1) : i % 2 = 0 /\ i # b.root})
                      [] OTHER -> g1
          IN
          /\ phase = 1 /\ first = <<>>
          /\ InitWith(g2, ww, Base, b.root)
          /\ askq = AsksOf(b, ww)
          /\ cur = <<b.root, Base>>
          /\ outs = <<>>

ErrJ(e) == IF e = NoErr THEN <<>> ELSE <<e.pos, e.k, e.msg>>
RECURSIVE ShJ(_)
ShJ(v) == IF v.one = <<>> THEN <<v.t, v.s, v.e>> ELSE <<v.t, v.s, v.e, ShJ(v.one[1])>>
ResJ(res) == [i \in 1..Len(res) |-> ShJ(res[i])]
OutRec == [n |-> cur[1], p |-> cur[2], res |-> ResJ(ret.res), err |-> ErrJ(ret.err), calls |-> calls, cerr |-> ErrJ(cerr)]

Fin == done /\ askq = <<>> /\ (TwoPhase => phase = 2)

NextAsk == /\ done /\ askq # <<>>
           /\ Ask(Head(askq)[1], Head(askq)[2])
           /\ askq' = Tail(askq)
           /\ cur' = Head(askq)
           /\ outs' = Append(outs, OutRec)
           /\ UNCHANGED <<phase, first>>
MStep == Step /\ UNCHANGED <<askq, cur, outs, phase, first>>
\* C03: start over on the same input with every Memoize wrapper removed; the asks of phase 1 are repeated
AllAsks == LET all == Append(outs, OutRec) IN [i \in 1..Len(all) |-> <<all[i].n, all[i].p>>]
Restart == /\ TwoPhase /\ phase = 1 /\ done /\ askq = <<>>
           /\ phase' = 2 /\ first' = Append(outs, OutRec)
           /\ G' = Strip(G, 1..Len(G)) /\ UNCHANGED <<w, B>>
           /\ stack' = <<Frame(AllAsks[1][1], AllAsks[1][2], EmptyMap)>> /\ ret' = NoRet
           /\ cache' = [x \in {} |-> 0] /\ calls' = 0 /\ cerr' = NoErr /\ done' = FALSE
           /\ runs' = [x \in {} |-> 0] /\ fails' = {}
           /\ askq' = Tail(AllAsks) /\ cur' = AllAsks[1] /\ outs' = <<>>
Idle == Fin /\ UNCHANGED mvars
Next == MStep \/ NextAsk \/ Restart \/ Idle
Spec == Init /\ [][Next]_mvars /\ WF_mvars(MStep \/ NextAsk \/ Restart)

\* (explosively ambiguous or cyclic bodies produce result lists of hundreds of alternatives; breadth-first
\* exploration advances all runs level by level, so a few such runs would dominate the wall time)
Budget == IF calls > MaxCalls \/ Len(stack) > MaxDepth \/ (ret.t = "ret" /\ Len(ret.res) > MaxRes)
          THEN PrintT("CUT") /\ FALSE ELSE TRUE

\* ---- C01 ------------------------------------------------------------------
EndsOfRes(res) == {res[i].e - B : i \in 1..Len(res)}
NoDupNonEmpty(res) == \A i, j \in 1..Len(res) : i < j /\ res[i] = res[j] => res[i].t # "E"
Complete ==
  done =>
    (D!Admissible(G) =>
      LET T == D!Ends(G, w) IN
      /\ IF EndsOfRes(ret.res) = T[cur[1]][cur[2] - B] THEN TRUE
         ELSE Print(<<"INCOMPLETE call", cur, w, EndsOfRes(ret.res), T[cur[1]][cur[2] - B], G>>, FALSE)
      /\ \A key \in DOMAIN cache :
            (DOMAIN cache[key].lrc = {}) =>
               IF EndsOfRes(cache[key].res) = T[key[1]][key[2] - B] THEN TRUE
               ELSE Print(<<"INCOMPLETE cache", key, w, EndsOfRes(cache[key].res), T[key[1]][key[2] - B], G>>, FALSE))

\* every alternative of every returned list starts where it was asked for (contiguous spans)
StartsOK == ret.t = "ret" => \A i \in 1..Len(ret.res) : ret.res[i].s <= ret.res[i].e /\ ret.res[i].e <= B + Len(w)

\* ---- C04 ------------------------------------------------------------------
RootDone == done /\ outs = <<>> /\ cur[2] = B /\ phase = 1      \* the Sentence root call has just returned
XorOutcome == RootDone => LET o == ApiOutcome IN (o.node = <<>>) # (o.err = NoErr)
SentenceIff ==
  RootDone /\ D!Admissible(G) =>
     LET o == ApiOutcome
         T == D!Ends(G, w)
     IN /\ (o.err = NoErr) <=> (Len(w) \in T[1][0])
        /\ (o.err = NoErr /\ D!SpanDomain(G)) => o.node.s = B /\ o.node.e = B + Len(w)

\* ---- C06 ------------------------------------------------------------------
\* the reported position never exceeds the furthest position at which a terminal or End was
\* tried and failed, equals it when every Any/Choice is named, and the expectation reported
\* is one that failed at that position
FurthestError ==
  RootDone /\ D!C06Domain(G) =>
     LET o == ApiOutcome IN
     o.err # NoErr =>
        IF /\ Furthest > 0 /\ o.err.pos <= Furthest
           /\ (D!AllNamed(G) => o.err.pos = Furthest)
           /\ \E a \in fails : a[1] = o.err.pos /\ a[2] = o.err.msg
        THEN TRUE
        ELSE Print(<<"FURTHEST", w, o.err, Furthest, fails, G>>, FALSE)

\* ---- C03 ------------------------------------------------------------------
AtMostOnceLRFree == D!LRFree(G) => AtMostOnce
\* Memoize changes nothing observable except the call count: ordered results, returned error and the position of
\* the furthest recorded error of every top-level call are those of the grammar without any Memoize
ErrPosJ(e) == IF e = <<>> THEN 0 ELSE e[1]
Transparent ==
  (TwoPhase /\ phase = 2 /\ Fin /\ D!LRFree(G)) =>
     LET second == Append(outs, OutRec) IN
     IF /\ Len(second) = Len(first)
        /\ \A i \in 1..Len(first) : /\ second[i].res = first[i].res
                                      /\ second[i].err = first[i].err
                                      /\ ErrPosJ(second[i].cerr) = ErrPosJ(first[i].cerr)
     THEN TRUE
     ELSE Print(<<"NOT TRANSPARENT", w, first, second, G>>, FALSE)

\* ---- export ---------------------------------------------------------------
Export ==
  (DoExport /\ done /\ askq = <<>> /\ phase = 1) =>
    LET adm == D!Admissible(G)
        T == IF adm THEN D!Ends(G, w) ELSE <<>>
        all == Append(outs, OutRec)
    IN PrintT(ToJson([G |-> G, w |-> w, B |-> B, adm |-> adm, fam |-> Fam,
                      asks |-> [i \in 1..Len(all) |->
                                  [n |-> all[i].n, p |-> all[i].p, res |-> all[i].res, err |-> all[i].err,
                                   calls |-> all[i].calls, cerr |-> all[i].cerr,
                                   ends |-> IF adm THEN SetToSortSeq(T[all[i].n][all[i].p - B], <) ELSE <<>>]]]))

\* C07 (model side): a stored context-free result is never replaced by a different one (within one phase)
CacheMonotoneMC ==
  [][(phase' = phase) => \A key \in DOMAIN cache : key \in DOMAIN cache' /\
        (cache[key].lrc = EmptyMap => cache'[key].res = cache[key].res)]_mvars

Terminates == <>Fin
=============================================================================
