------------------------------ MODULE ParsleyMC ------------------------------
(***************************************************************************)
(* Exhaustive exploration of ParsleyMachine over a bounded grammar family    *)
(* and every input up to a bounded length, against the denotational oracle.  *)
(* One behaviour = one (grammar, input, base): the Sentence root is parsed   *)
(* at the first byte, then every memoised nonterminal is asked at every      *)
(* position on the same warm context ("asks").                               *)
(*                                                                           *)
(* Checked in every state: ReentryBound (C02), AtMostOnce for grammars       *)
(* without left recursion (C03).  At the end of every top-level call:        *)
(* Complete/Sound against Derivation!Ends for the call and for every         *)
(* context-free cache entry (C01), node-xor-error and Sentence <=> whole     *)
(* input (C04), the furthest-failure bound of the reported error (C06).      *)
(* At the end of the behaviour the case with every expected outcome is       *)
(* printed as JSON for the model->code replay.                               *)
(***************************************************************************)
EXTENDS ParsleyMachine, Grammar, Json, SequencesExt

CONSTANTS Fam,        \* which family: "F1" "F2" "NM" "HID" "HID2" "F3" "OPT" "LINES" "CAT"
          MaxLen,     \* inputs: all strings over Alphabet of length 0..MaxLen
          Alphabet,   \* byte values
          Base,       \* base offset of the parsed file (1 = alone in its file set)
          NSlices, Slice,   \* explore the bodies whose index = Slice (mod NSlices)
          MaxCalls, MaxDepth, MaxRes,   \* budget: a run that exceeds it is cut and not judged
          NameAll,    \* TRUE: every Any/Choice of the family's grammars carries a Name (C06)
          DoExport    \* print the cases for the replay

VARIABLES askq, cur, outs
mvars == <<vars, askq, cur, outs>>

D == INSTANCE Derivation

FamilySet == CASE Fam = "F1" -> {<<b>> : b \in F1Bodies}
               [] Fam = "F2" -> {<<b>> : b \in F2Bodies}
               [] Fam = "NM" -> {<<b>> : b \in NMBodies}
               [] Fam = "HID" -> {<<b>> : b \in HiddenBodies}
               [] Fam = "F3" -> F3Pairs
               [] Fam = "HID2" -> Hidden2Pairs
               [] Fam = "OPT" -> {<<b>> : b \in OptBodies}
               [] Fam = "LINES" -> {<<b>> : b \in LineBodies}
               [] OTHER -> Catalogue
FamilySeq == SetToSeq(FamilySet)
Chosen == {FamilySeq[i] : i \in {j \in 1..Len(FamilySeq) : j % NSlices = Slice}}
Inputs == UNION {[1..n -> Alphabet] : n \in 0..MaxLen}

\* the asks that follow the root call: every nonterminal at every position
AsksOf(b, ww) == LET nts == SetToSortSeq(b.nts, <)
                 IN [i \in 1..(Len(nts) * (Len(ww) + 1)) |->
                        <<nts[((i - 1) \div (Len(ww) + 1)) + 1], Base + ((i - 1) % (Len(ww) + 1))>>]

Init == \E bodies \in Chosen, ww \in Inputs :
          LET b == Build(bodies) IN
          /\ InitWith(IF NameAll THEN NameAllG(b.G) ELSE b.G, ww, Base, b.root)
          /\ askq = AsksOf(b, ww)
          /\ cur = <<b.root, Base>>
          /\ outs = <<>>

ErrJ(e) == IF e = NoErr THEN <<>> ELSE <<e.pos, e.k, e.msg>>
ResJ(res) == [i \in 1..Len(res) |-> <<res[i].t, res[i].s, res[i].e>>]
OutRec == [n |-> cur[1], p |-> cur[2], res |-> ResJ(ret.res), err |-> ErrJ(ret.err), calls |-> calls, cerr |-> ErrJ(cerr)]

Fin == done /\ askq = <<>>

NextAsk == /\ done /\ askq # <<>>
           /\ Ask(Head(askq)[1], Head(askq)[2])
           /\ askq' = Tail(askq)
           /\ cur' = Head(askq)
           /\ outs' = Append(outs, OutRec)
MStep == Step /\ UNCHANGED <<askq, cur, outs>>
Idle == Fin /\ UNCHANGED mvars
Next == MStep \/ NextAsk \/ Idle
Spec == Init /\ [][Next]_mvars /\ WF_mvars(MStep \/ NextAsk)

\* (explosively ambiguous or cyclic bodies produce result lists of hundreds of alternatives; breadth-first
\* exploration advances all runs level by level, so a few such runs would dominate the wall time)
Budget == IF calls > MaxCalls \/ Len(stack) > MaxDepth \/ (ret.t = "ret" /\ Len(ret.res) > MaxRes)
          THEN PrintT("CUT") /\ FALSE ELSE TRUE

\* ---- C01 ------------------------------------------------------------------
EndsOfRes(res) == {res[i].e - B : i \in 1..Len(res)}
NoDupNonEmpty(res) == \A i, j \in 1..Len(res) : i < j /\ res[i] = res[j] => res[i].t # "E"
Complete ==
  done =>
    (D!Admissible(G) =>
      LET T == D!Ends(G, w) IN
      /\ IF EndsOfRes(ret.res) = T[cur[1]][cur[2] - B] THEN TRUE
         ELSE Print(<<"INCOMPLETE call", cur, w, EndsOfRes(ret.res), T[cur[1]][cur[2] - B], G>>, FALSE)
      /\ \A key \in DOMAIN cache :
            (DOMAIN cache[key].lrc = {}) =>
               IF EndsOfRes(cache[key].res) = T[key[1]][key[2] - B] THEN TRUE
               ELSE Print(<<"INCOMPLETE cache", key, w, EndsOfRes(cache[key].res), T[key[1]][key[2] - B], G>>, FALSE))

\* every alternative of every returned list starts where it was asked for (contiguous spans)
StartsOK == ret.t = "ret" => \A i \in 1..Len(ret.res) : ret.res[i].s <= ret.res[i].e /\ ret.res[i].e <= B + Len(w)

\* ---- C04 ------------------------------------------------------------------
RootDone == done /\ outs = <<>> /\ cur[2] = B      \* the Sentence root call has just returned
XorOutcome == RootDone => LET o == ApiOutcome IN (o.node = <<>>) # (o.err = NoErr)
SentenceIff ==
  RootDone /\ D!Admissible(G) =>
     LET o == ApiOutcome
         T == D!Ends(G, w)
     IN /\ (o.err = NoErr) <=> (Len(w) \in T[1][0])
        /\ o.err = NoErr => o.node.s = B /\ o.node.e = B + Len(w)

\* ---- C06 ------------------------------------------------------------------
\* the reported position never exceeds the furthest position at which a terminal or End was
\* tried and failed, equals it when every Any/Choice is named, and the expectation reported
\* is one that failed at that position
FurthestError ==
  RootDone /\ D!Productive(G) =>
     LET o == ApiOutcome IN
     o.err # NoErr =>
        IF /\ Furthest > 0 /\ o.err.pos <= Furthest
           /\ (D!AllNamed(G) => o.err.pos = Furthest)
           /\ \E a \in fails : a[1] = o.err.pos /\ a[2] = o.err.msg
        THEN TRUE
        ELSE Print(<<"FURTHEST", w, o.err, Furthest, fails, G>>, FALSE)

\* ---- C03 ------------------------------------------------------------------
AtMostOnceLRFree == D!LRFree(G) => AtMostOnce

\* ---- export ---------------------------------------------------------------
Export ==
  DoExport /\ Fin =>
    LET adm == D!Admissible(G)
        T == IF adm THEN D!Ends(G, w) ELSE <<>>
        all == Append(outs, OutRec)
    IN PrintT(ToJson([G |-> G, w |-> w, B |-> B, adm |-> adm, fam |-> Fam,
                      asks |-> [i \in 1..Len(all) |->
                                  [n |-> all[i].n, p |-> all[i].p, res |-> all[i].res, err |-> all[i].err,
                                   calls |-> all[i].calls, cerr |-> all[i].cerr,
                                   ends |-> IF adm THEN SetToSortSeq(T[all[i].n][all[i].p - B], <) ELSE <<>>]]]))

Terminates == <>Fin
=============================================================================
