CONSTANTS PinnedSeqReset = FALSE  PinnedAnyDrop = FALSE  JudgeOnly = TRUE
  Props = {"C01", "C02", "C04", "C06"}
INIT TraceInit
NEXT TraceNext
INVARIANTS Hwm TraceReentryBound
POSTCONDITION Accepted
CHECK_DEADLOCK FALSE
