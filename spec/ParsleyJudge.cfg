CONSTANTS PinnedSeqReset = FALSE  PinnedAnyDrop = FALSE  JudgeOnly = TRUE
INIT TraceInit
NEXT TraceNext
INVARIANTS Hwm TraceReentryBound
POSTCONDITION Accepted
CHECK_DEADLOCK FALSE
