INIT TraceInit
NEXT TraceNext
INVARIANTS Hwm
POSTCONDITION Accepted
CHECK_DEADLOCK FALSE
