------------------------------ MODULE C14Trace ------------------------------
(* Judge for C14 on recorded concurrent executions of the real code.  One line per goroutine and workload:            *)
(*  {"ev":"run","g":i,"wl":name,"mode":"free"|"gated","sched":[..],"solo":[obs..],"conc":[obs..]}                     *)
(*  {"ev":"race","report":"..."}      a report of the Go race detector (the specification has no action for it)        *)
(* SoloEqual: what a goroutine observes while the others run (results, errors, call counts of every parse it did, in   *)
(* order; in gated mode every probe event) is exactly what it observes when it runs alone.                             *)
EXTENDS Integers, Sequences, FiniteSets, TLC, Json, IOUtils
Trace == ndJsonDeserialize(IOEnv.TRACE)
VARIABLE l
ASSUME TLCSet(42, 0)
Ev == Trace[l]
LineOK ==
  /\ IF Ev.ev # "race" THEN TRUE ELSE Print(<<"C14 data race reported: line", l>>, FALSE)
  /\ Ev.ev = "run"
  /\ "panic" \notin DOMAIN Ev
  /\ IF Ev.solo = Ev.conc THEN TRUE ELSE Print(<<"C14 a concurrent run differs from the same run alone: line", l, "goroutine", Ev.g, Ev.wl, Ev.mode>>, FALSE)
TraceInit == l = 1
TraceNext == l <= Len(Trace) /\ l' = l + 1 /\ LineOK
Hwm == TLCSet(42, IF l > TLCGet(42) THEN l ELSE TLCGet(42))
Accepted == IF TLCGet(42) = Len(Trace) + 1 THEN TRUE ELSE Print(<<"REJECTED at line", TLCGet(42)>>, FALSE)
=============================================================================
