------------------------------ MODULE ReaderMC ------------------------------
(* Exhaustive exploration of the reader's cursor machine: every content up to MaxLen over Alphabet, every  *)
(* base in Bases, every position reachable by successful matches or single-byte steps (= all positions).    *)
(* Every state is printed with the expected result of every primitive for every argument of the small      *)
(* argument sets (the regexp primitive is replayed by the harness against its own oracle).                  *)
EXTENDS Reader, Json

CONSTANTS MaxLen, Alphabet, DoExport

AllContents == UNION {[1..n -> Alphabet] : n \in 0..MaxLen}
\* runes: a, LF, é (U+00E9 = C3 A9), U+FFFD; strings: a, a_, aa, é as bytes; words: a, a_, a1
MCRunes == {97, 10, 233, 65533, 353, 266}    \* 353 = U+0161 and 266 = U+010A end in the bytes of 'a' and LF
MCStrings == {<<97>>, <<97, 95>>, <<97, 97>>, <<195, 169>>}
MCWords == {<<97>>, <<97, 95>>, <<97, 49>>}
Modes == <<"none", "spaces", "nl", "forcenl">>

SeqOfSet(S) == LET RECURSIVE F(_) F(T) == IF T = {} THEN <<>> ELSE LET x == CHOOSE y \in T : TRUE IN <<x>> \o F(T \ {x}) IN F(S)
RunesSeq == SeqOfSet(MCRunes)
StringsSeq == SeqOfSet(MCStrings)
WordsSeq == SeqOfSet(MCWords)

R2(r) == <<r.pos, r.ok>>
Export ==
  DoExport =>
    PrintT(ToJson([data |-> data, base |-> base, pos |-> pos,
      rune |-> [i \in 1..Len(RunesSeq) |-> <<RunesSeq[i], R2(ReadRune(data, base, pos, RunesSeq[i]))>>],
      str |-> [i \in 1..Len(StringsSeq) |-> <<StringsSeq[i], R2(MatchString(data, base, pos, StringsSeq[i]))>>],
      word |-> [i \in 1..Len(WordsSeq) |-> <<WordsSeq[i], R2(MatchWord(data, base, pos, WordsSeq[i]))>>],
      ws |-> [i \in 1..4 |-> LET r == SkipWs(data, base, pos, Modes[i]) IN <<Modes[i], r.pos, r.err>>],
      rf |-> <<LET r == Readf(data, base, pos, "digits") IN <<r.pos, r.ok, r.val>>,
               LET r == Readf(data, base, pos, "pair") IN <<r.pos, r.ok, r.val>>>>,
      rem |-> Remaining(data, base, pos), eof |-> IsEOF(data, base, pos)]))
=============================================================================
