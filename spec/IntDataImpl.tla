---------------------------- MODULE IntDataImpl ----------------------------
(***************************************************************************)
(* data.IntSet as the Go code implements it: a value is a slice header       *)
(* (backing array, length, capacity) and several values may share one         *)
(* backing array.  This is the level at which persistence can actually break: *)
(* an operation that appends within the spare capacity of an array it did not *)
(* allocate writes into memory an earlier value still reads.                  *)
(*                                                                           *)
(*   arrays[a]            the backing arrays (their length is the capacity)    *)
(*   vals[i] = [arr, len] the slice headers produced so far                    *)
(*   born[i]              the abstract set vals[i] denoted when it was made     *)
(*                                                                           *)
(* Operations follow data/intset.go statement by statement (NewIntSet with     *)
(* make(0, len(values)) and insertValue; Insert; Union with its two aliasing    *)
(* shortcuts and make(0, len1+len2)); Go's append grows a full array to        *)
(* max(1, 2*cap).  PinnedInsertAlias = TRUE is the code before the fix of D6    *)
(* (`i2 := i; i2.insertValue(val)`), FALSE the repaired code (copy first).      *)
(*                                                                           *)
(* Persistent (C15 at the implementation level): every value still denotes the  *)
(* set it denoted when it was produced.  Refines: the abstract history is a     *)
(* behaviour of IntData.tla's set operations.                                   *)
(***************************************************************************)
EXTENDS Integers, Sequences, FiniteSets, TLC

CONSTANTS D, MaxArgs, MaxOps, PinnedInsertAlias

VARIABLES arrays, vals, born, nops
vars == <<arrays, vals, born, nops>>

Hdr(a, l) == [arr |-> a, len |-> l]
Cap(h) == Len(arrays[h.arr])
Elems(as, h) == {as[h.arr][k] : k \in 1..h.len}
Abs(h) == Elems(arrays, h)

\* sort.SearchInts on the first len elements: smallest index (1-based) with element >= val, len + 1 if none
SearchIdx(as, h, val) == 1 + Cardinality({k \in 1..h.len : as[h.arr][k] < val})

\* insertValue on header h in heap `as`: <<heap', header'>>
InsertValue(as, h, val) ==
  LET idx == SearchIdx(as, h, val) IN
  IF idx <= h.len /\ as[h.arr][idx] = val THEN <<as, h>>
  ELSE IF h.len < Len(as[h.arr])
       THEN \* append within the capacity: the SAME backing array is written
            LET a2 == [k \in 1..Len(as[h.arr]) |->
                          IF k < idx THEN as[h.arr][k] ELSE IF k = idx THEN val ELSE IF k <= h.len + 1 THEN as[h.arr][k - 1] ELSE as[h.arr][k]]
            IN <<[as EXCEPT ![h.arr] = a2], Hdr(h.arr, h.len + 1)>>
       ELSE \* the array is full: append allocates a new one (capacity max(1, 2 * cap)) and copies
            LET ncap == IF Len(as[h.arr]) = 0 THEN 1 ELSE 2 * Len(as[h.arr])
                a2 == [k \in 1..ncap |-> IF k < idx THEN as[h.arr][k] ELSE IF k = idx THEN val ELSE IF k <= h.len + 1 THEN as[h.arr][k - 1] ELSE 0]
            IN <<Append(as, a2), Hdr(Len(as) + 1, h.len + 1)>>

RECURSIVE InsertAll(_, _, _)
InsertAll(as, h, vs) == IF vs = <<>> THEN <<as, h>> ELSE LET r == InsertValue(as, h, Head(vs)) IN InsertAll(r[1], r[2], Tail(vs))

Zeros(n) == [k \in 1..n |-> 0]
Push(as, h) == /\ arrays' = as
               /\ vals' = Append(vals, h)
               /\ born' = Append(born, Elems(as, h))
               /\ nops' = nops + 1

NewIntSet == \E n \in 0..MaxArgs : \E args \in [1..n -> D] :
               LET as1 == Append(arrays, Zeros(n))                       \* make([]int, 0, len(values))
                   r == InsertAll(as1, Hdr(Len(as1), 0), args)
               IN Push(r[1], r[2])
Insert == \E i \in 1..Len(vals), x \in D :
            LET h == vals[i] IN
            IF h.len = 0 THEN Push(Append(arrays, <<x>>), Hdr(Len(arrays) + 1, 1))          \* IntSet{[]int{val}}
            ELSE IF PinnedInsertAlias
                 THEN LET r == InsertValue(arrays, h, x) IN Push(r[1], r[2])                  \* i2 := i; i2.insertValue(val)
                 ELSE LET as1 == Append(arrays, [k \in 1..(h.len + 1) |-> IF k <= h.len THEN arrays[h.arr][k] ELSE 0])   \* make(len, len+1); copy
                          r == InsertValue(as1, Hdr(Len(as1), h.len), x)
                      IN Push(r[1], r[2])
RECURSIVE Merge(_, _, _, _, _)
Merge(a, la, b, lb, acc) ==      \* the merge loop of Union on two ascending sequences
  IF la = 0 /\ lb = 0 THEN acc
  ELSE IF lb = 0 \/ (la > 0 /\ a[1] < b[1]) THEN Merge(Tail(a), la - 1, b, lb, Append(acc, a[1]))
  ELSE IF la = 0 \/ b[1] < a[1] THEN Merge(a, la, Tail(b), lb - 1, Append(acc, b[1]))
  ELSE Merge(Tail(a), la - 1, Tail(b), lb - 1, Append(acc, a[1]))
Union == \E i \in 1..Len(vals), j \in 1..Len(vals) :
           LET h1 == vals[i] h2 == vals[j] IN
           IF h2.len = 0 THEN Push(arrays, h1)                        \* return i  (the same header: shares the array)
           ELSE IF h1.len = 0 THEN Push(arrays, h2)
           ELSE LET m == Merge(SubSeq(arrays[h1.arr], 1, h1.len), h1.len, SubSeq(arrays[h2.arr], 1, h2.len), h2.len, <<>>)
                    a2 == [k \in 1..(h1.len + h2.len) |-> IF k <= Len(m) THEN m[k] ELSE 0]      \* make(0, len1+len2): spare capacity if they overlap
                IN Push(Append(arrays, a2), Hdr(Len(arrays) + 1, Len(m)))

Init == arrays = <<>> /\ vals = <<>> /\ born = <<>> /\ nops = 0
Next == nops < MaxOps /\ (NewIntSet \/ Insert \/ Union)
Spec == Init /\ [][Next]_vars

\* ---- properties --------------------------------------------------------------------------------------
Persistent == \A i \in 1..Len(vals) : Abs(vals[i]) = born[i]
Sorted == \A i \in 1..Len(vals) : \A k \in 1..(vals[i].len - 1) : arrays[vals[i].arr][k] < arrays[vals[i].arr][k + 1]
InCap == \A i \in 1..Len(vals) : vals[i].len <= Cap(vals[i])
\* refinement of the abstract operations: the newest value denotes what the set model gives
AbstractStep ==
  [][\/ \E args \in UNION {[1..n -> D] : n \in 0..MaxArgs} : born'[Len(born')] = {args[k] : k \in 1..Len(args)}
     \/ \E i \in 1..Len(born), x \in D : born'[Len(born')] = born[i] \cup {x}
     \/ \E i \in 1..Len(born), j \in 1..Len(born) : born'[Len(born')] = born[i] \cup born[j]]_vars
View == <<arrays, vals, born>>
=============================================================================
