------------------------------ MODULE FileSet ------------------------------
(***************************************************************************)
(* parsley.FileSet / text.File: global positions <-> (file, line, column).  *)
(*                                                                          *)
(* State: the sequence of files added so far and `next`, the global position *)
(* the next file will start at.  A file keeps its name, the raw bytes it was *)
(* created from, the CRLF-normalised bytes and its base offset.  Every file  *)
(* owns the positions base .. base + len (the last one is its end-of-file    *)
(* position), so consecutive files are one position apart.                   *)
(*                                                                          *)
(* Bytes are integers: 10 = LF, 13 = CR.                                     *)
(***************************************************************************)
EXTENDS Integers, Sequences, FiniteSets, TLC

CONSTANTS Names,      \* file names used by AddFile (a sequence; the i-th file gets Names[i])
          Contents,   \* the raw contents explored
          MaxFiles

VARIABLES files, next
vars == <<files, next>>

\* bytes.Replace(data, "\r\n", "\n", -1): one left-to-right pass, non-overlapping
\* (a CR directly followed by LF is dropped, everything else is kept: one left-to-right pass, pairs cannot overlap)
Norm(raw) ==
  LET keep == SelectSeq([i \in 1..Len(raw) |-> i], LAMBDA i : ~(raw[i] = 13 /\ i < Len(raw) /\ raw[i + 1] = 10))
  IN [k \in 1..Len(keep) |-> raw[keep[k]]]

FileRec(name, raw, base) == [name |-> name, raw |-> raw, data |-> Norm(raw), base |-> base]

DoAddFile(name, raw) ==
  /\ files' = Append(files, FileRec(name, raw, next))
  /\ next' = next + Len(Norm(raw)) + 1

AddFile == /\ Len(files) < MaxFiles
           /\ \E raw \in Contents : DoAddFile(Names[Len(files) + 1], raw)

Init == files = <<>> /\ next = 1
Next == AddFile
Spec == Init /\ [][Next]_vars

\* ---- queries ------------------------------------------------------------------
\* line / column of a byte offset of normalised data (offset 0 .. Len(data))
LineOf(data, off) == 1 + Cardinality({i \in 1..off : data[i] = 10})
RECURSIVE LastLF(_, _)
LastLF(data, off) == IF off = 0 THEN 0 ELSE IF data[off] = 10 THEN off ELSE LastLF(data, off - 1)
ColOf(data, off) == off - LastLF(data, off) + 1

PosString(name, line, col) ==
  IF name = "" THEN ToString(line) \o ":" \o ToString(col)
  ELSE name \o ":" \o ToString(line) \o ":" \o ToString(col)

\* the file that owns a global position (0 if none)
Owner(pos) == IF \E i \in 1..Len(files) : files[i].base <= pos /\ pos <= files[i].base + Len(files[i].data)
              THEN CHOOSE i \in 1..Len(files) : files[i].base <= pos /\ pos <= files[i].base + Len(files[i].data)
              ELSE 0

\* FileSet.Position(pos).String()
Position(pos) ==
  LET i == Owner(pos) IN
  IF pos <= 0 \/ pos >= next \/ i = 0 THEN "unknown"
  ELSE LET f == files[i] off == pos - f.base
       IN PosString(f.name, LineOf(f.data, off), ColOf(f.data, off))

\* File.Pos(off) of the i-th file
FilePos(i, off) == files[i].base + off
\* File.Position(off).String() of the i-th file ("unknown" beyond the end)
FilePosition(i, off) ==
  LET f == files[i] IN
  IF off > Len(f.data) THEN "unknown" ELSE PosString(f.name, LineOf(f.data, off), ColOf(f.data, off))

\* ---- properties (C11) -----------------------------------------------------------
Ranges(i) == files[i].base .. (files[i].base + Len(files[i].data))
NoOverlap == \A i, j \in 1..Len(files) : i # j => Ranges(i) \cap Ranges(j) = {}
\* distinct (file, offset) pairs have distinct global positions
Injective == \A i, j \in 1..Len(files) : \A a \in 0..Len(files[i].data), b \in 0..Len(files[j].data) :
                FilePos(i, a) = FilePos(j, b) => i = j /\ a = b
\* every position of every file translates back to that file, and to the line/column counted on the normalised bytes
RoundTrip == \A i \in 1..Len(files) : \A off \in 0..Len(files[i].data) :
                /\ Owner(FilePos(i, off)) = i
                /\ Position(FilePos(i, off)) = FilePosition(i, off)
\* position 0 and everything from `next` on is unknown; everything in between is owned by exactly one file
UnknownOutside == /\ Position(0) = "unknown" /\ Position(next) = "unknown" /\ Position(next + 1) = "unknown"
                  /\ \A pos \in 1..(next - 1) : Owner(pos) # 0
NextAbove == \A i \in 1..Len(files) : files[i].base + Len(files[i].data) < next
Monotone == [][next' > next /\ \A i \in 1..Len(files) : files'[i] = files[i]]_vars

\* refinement: forgetting the contents, a file set is a behaviour of FileSetAbs, whose inductive invariant Apalache
\* discharges for files of any length (FileSetAbsInd.tla)
AbsFiles == [i \in 1..Len(files) |-> [base |-> files[i].base, len |-> Len(files[i].data)]]
Abs == INSTANCE FileSetAbs WITH files <- AbsFiles
RefinesAbs == Abs!IndInv
RefinesAbsStep == [][next' - next - 1 >= 0 /\ Abs!DoAdd(next' - next - 1)]_vars
=============================================================================
