----------------------------- MODULE FileSetMC -----------------------------
(* Exhaustive exploration of file sets; every state (= file set) is printed with the expected answer *)
(* of every query: Position(pos) for pos = 0 .. next + 1, File.Pos / File.Position for every offset.  *)
EXTENDS FileSet, Json

CONSTANTS MaxLen, Alphabet, DoExport

MCNames == <<"f1", "", "f3">>
AllContents == UNION {[1..n -> Alphabet] : n \in 0..MaxLen}

Export ==
  DoExport /\ files # <<>> =>
    PrintT(ToJson([files |-> [i \in 1..Len(files) |-> [name |-> files[i].name, raw |-> files[i].raw,
                                                        base |-> files[i].base, len |-> Len(files[i].data),
                                                        fpos |-> [o \in 1..(Len(files[i].data) + 2) |-> FilePosition(i, o - 1)]]],
                   next |-> next,
                   q |-> [p \in 1..(next + 2) |-> Position(p - 1)]]))
=============================================================================
