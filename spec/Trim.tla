-------------------------------- MODULE Trim --------------------------------
(***************************************************************************)
(* text.LeftTrim / RightTrim / Trim: the whitespace modes as the property    *)
(* (C10) states them, over a sequence of single-byte tokens t1 .. tk with    *)
(* a whitespace string in every gap (before t1, between tokens, after tk):   *)
(* the grammar is  SeqOf(RightTrim(LeftTrim(t1, lm1), rm1), ..., End).       *)
(*                                                                           *)
(* The parse proceeds left to right.  At the current position the run is the *)
(* maximal sequence of SP, TAB, LF, FF.  A trim skips exactly that run and   *)
(* accepts it precisely when it satisfies the mode:                          *)
(*    none: empty run   spaces: no line break   nl: anything                 *)
(*    forcenl: at least one line break (LF or FF)                            *)
(* otherwise the parse fails with that mode's whitespace error at the start  *)
(* of the run / the first line break / the end of the run.  The token keeps  *)
(* its own start and value; only a right-trimmed node's end moves past the   *)
(* run.  (A right trim consumes the whole run, so the left trim of the next  *)
(* token sees an empty run.)                                                 *)
(***************************************************************************)
EXTENDS Integers, Sequences, FiniteSets, TLC

IsWsT(x) == x \in {32, 9, 10, 12}
IsNlT(x) == x \in {10, 12}

RECURSIVE Concat(_)
Concat(ss) == IF ss = <<>> THEN <<>> ELSE Head(ss) \o Concat(Tail(ss))
\* the input text: gaps[1] t1 gaps[2] t2 ... tk gaps[k+1]
TextOf(toks, gaps) == Concat([i \in 1..(2 * Len(toks) + 1) |-> IF i % 2 = 1 THEN gaps[(i + 1) \div 2] ELSE <<toks[i \div 2]>>])

RECURSIVE RunEndT(_, _)
RunEndT(txt, cur) == IF cur < Len(txt) /\ IsWsT(txt[cur + 1]) THEN RunEndT(txt, cur + 1) ELSE cur
RECURSIVE FirstNlT(_, _, _)
FirstNlT(txt, cur, end) == IF cur >= end THEN -1 ELSE IF IsNlT(txt[cur + 1]) THEN cur ELSE FirstNlT(txt, cur + 1, end)

\* the mode's verdict on the run starting at cursor cur: <<>> or <<error cursor, message>>
ModeError(txt, cur, mode) ==
  LET end == RunEndT(txt, cur)
      nl == FirstNlT(txt, cur, end)
  IN CASE mode = "none" /\ end > cur -> <<cur, "whitespaces are not allowed">>
       [] mode = "spaces" /\ nl >= 0 -> <<nl, "new line is not allowed">>
       [] mode = "forcenl" /\ nl < 0 -> <<end, "was expecting a new line">>
       [] OTHER -> <<>>

\* Expected outcome: [ok |-> TRUE, nodes |-> <<<<start, end>>, ...>>, err |-> <<>>]
\*               or  [ok |-> FALSE, nodes |-> <<>>, err |-> <<cursor, message>>]      (cursors 0-based)
RECURSIVE Walk(_, _, _, _, _, _, _)
Walk(txt, toks, lm, rm, i, cur, nodes) ==
  IF i > Len(toks) THEN [ok |-> TRUE, nodes |-> nodes, err |-> <<>>]
  ELSE LET le == ModeError(txt, cur, lm[i])
           start == RunEndT(txt, cur)
       IN IF le # <<>> THEN [ok |-> FALSE, nodes |-> <<>>, err |-> le]
          ELSE LET re == ModeError(txt, start + 1, rm[i])
                   end == RunEndT(txt, start + 1)
               IN IF re # <<>> THEN [ok |-> FALSE, nodes |-> <<>>, err |-> re]
                  ELSE Walk(txt, toks, lm, rm, i + 1, end, Append(nodes, <<start, end>>))
Expected(toks, gaps, lm, rm) == Walk(TextOf(toks, gaps), toks, lm, rm, 1, 0, <<>>)

\* transparency: an accepted parse has exactly the tokens of the bare sequence, each starting at its own byte
Transparent(toks, gaps, lm, rm) ==
  LET e == Expected(toks, gaps, lm, rm)
      txt == TextOf(toks, gaps)
  IN e.ok => /\ Len(e.nodes) = Len(toks)
             /\ \A i \in 1..Len(toks) : txt[e.nodes[i][1] + 1] = toks[i]
             /\ \A i \in 1..(Len(toks) - 1) : e.nodes[i][2] = e.nodes[i + 1][1]
             /\ e.nodes[Len(toks)][2] = Len(txt)

\* line / column rendering of a cursor (for the text of parsley.Parse's error)
LineOfT(txt, c) == 1 + Cardinality({i \in 1..c : txt[i] = 10})
RECURSIVE LastLFT(_, _)
LastLFT(txt, c) == IF c = 0 THEN 0 ELSE IF txt[c] = 10 THEN c ELSE LastLFT(txt, c - 1)
ApiText(txt, err) == "failed to parse the input: " \o err[2] \o " at f:" \o ToString(LineOfT(txt, err[1])) \o ":"
                     \o ToString(err[1] - LastLFT(txt, err[1]) + 1)
=============================================================================
