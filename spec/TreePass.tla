------------------------------ MODULE TreePass ------------------------------
(***************************************************************************)
(* The tree passes of opsidian/parsley over an arbitrary AST:                *)
(*   Walk         post-order, every node exactly once, stop on true          *)
(*   StaticCheck  Walk + the node's checker; the returned schema is recorded  *)
(*                on the node; the first error aborts                         *)
(*   Transform    a node's own transformer where its interpreter has one,     *)
(*                otherwise the children are transformed recursively          *)
(*   Evaluate     every non-terminal's interpreter is handed exactly its node *)
(*                                                                           *)
(* A tree is a sequence of nodes; node i = [k, cap, kids]:                   *)
(*   k    "term" | "empty" | "nt" | "blk" (a USER-DEFINED non-terminal that    *)
(*        is also Walkable: its own Walk visits a header node - id 1000 + n -  *)
(*        first, then its children, then itself; every other pass treats it   *)
(*        like an "nt")                                                       *)
(*   cap  capability of the interpreter bound to an "nt" node:               *)
(*        "plain" (Eval only) | "checker" | "transformer" | "both"           *)
(*        | "keep" (a transformer that returns the node it was given)         *)
(*        | "none" (no interpreter bound: a pure grouping node; it cannot be *)
(*        evaluated, the other passes treat it like "plain")                 *)
(*   kids ids of the children (greater than i); node 1 is the root.          *)
(* `list` = TRUE puts the tree into an ast.NodeList of two alternatives (the  *)
(* tree and one extra terminal); passes see the list as the root.            *)
(*                                                                           *)
(* The Walk machine below is the explicit-stack version of parsley.Walk;     *)
(* the other passes are given as recursive definitions of the event log the   *)
(* recording interpreters of the harness must produce.                       *)
(***************************************************************************)
EXTENDS Integers, Sequences, FiniteSets, TLC

IsNT(nd) == nd.k \in {"nt", "blk"}
HdrOf(n) == 1000 + n            \* the header node of the block n (a terminal that only the block's own Walk reaches)
IsHdr(id) == id > 1000

\* ---- post-order -----------------------------------------------------------------
RECURSIVE PostOrder(_, _)
PostOrder(tree, n) ==
  LET RECURSIVE Kids(_)
      Kids(i) == IF i > Len(tree[n].kids) THEN <<>> ELSE PostOrder(tree, tree[n].kids[i]) \o Kids(i + 1)
  IN (IF tree[n].k = "blk" THEN <<HdrOf(n)>> ELSE <<>>) \o Kids(1) \o <<n>>

\* id 0 stands for the NodeList itself; Walk on a list walks its FIRST element, then visits the list
FullOrder(tree, list) == IF list THEN PostOrder(tree, 1) \o <<0>> ELSE PostOrder(tree, 1)

Take(s, k) == SubSeq(s, 1, IF k < Len(s) THEN k ELSE Len(s))

\* Empty nodes are VALUES (a position): two of them at one position are equal, so a visit log cannot tell them apart; logs
\* name every empty node -1
EmptyAs(tree, log) == [i \in 1..Len(log) |-> IF log[i] > 0 /\ ~IsHdr(log[i]) /\ tree[log[i]].k = "empty" THEN 0 - 1 ELSE log[i]]

\* ---- Walk: visits in post-order; the callback returns true at the stopK-th visit (0: never) ---
WalkLog(tree, list, stopK) == IF stopK = 0 THEN FullOrder(tree, list) ELSE Take(FullOrder(tree, list), stopK)
WalkResult(tree, list, stopK) == stopK > 0 /\ stopK <= Len(FullOrder(tree, list))

\* ---- StaticCheck ---------------------------------------------------------------------
HasChecker(nd) == IsNT(nd) /\ nd.cap \in {"checker", "both"}
\* "transformer" / "both": the transformer REPLACES the node by a new terminal; "keep": the transformer returns the very node
\* it was given (an identity / in-place transformer) - the node and everything below it stay as they are
HasTransformer(nd) == IsNT(nd) /\ nd.cap \in {"transformer", "both", "keep"}
Replaced(nd) == IsNT(nd) /\ nd.cap \in {"transformer", "both"}
\* the checkers run in post-order; the checker of node failAt returns an error (0: none)
CheckOrder(tree) == SelectSeq(PostOrder(tree, 1), LAMBDA n : ~IsHdr(n) /\ HasChecker(tree[n]))
RECURSIVE UpTo(_, _)
UpTo(s, x) == IF s = <<>> THEN <<>> ELSE IF Head(s) = x THEN <<x>> ELSE <<Head(s)>> \o UpTo(Tail(s), x)
CheckLog(tree, failAt) == IF failAt \in {CheckOrder(tree)[i] : i \in 1..Len(CheckOrder(tree))} THEN UpTo(CheckOrder(tree), failAt) ELSE CheckOrder(tree)
CheckFails(tree, failAt) == \E i \in 1..Len(CheckOrder(tree)) : CheckOrder(tree)[i] = failAt
\* the schema a checker returns: its node id and the schemas it SEES on its children at that moment
\* ("" for a child without a recorded schema); bottom-up order makes these the children's final schemas
RECURSIVE SchemaOfT(_, _, _, _)
SchemaOfT(tree, failAt, n, tag) ==
  LET nd == tree[n]
      RECURSIVE KS(_)
      KS(i) == IF i > Len(nd.kids) THEN "" ELSE SchemaOfT(tree, failAt, nd.kids[i], tag) \o (IF i < Len(nd.kids) THEN "," ELSE "") \o KS(i + 1)
  IN IF HasChecker(nd) /\ n # failAt THEN tag \o ToString(n) \o "(" \o KS(1) \o ")"
     ELSE IF nd.k = "term" THEN "t" ELSE ""
SchemaOf(tree, failAt, n) == SchemaOfT(tree, failAt, n, "s")
\* schema recorded on node n after the pass: only for checkers that ran successfully
Ran(tree, failAt, n) == \E i \in 1..Len(CheckLog(tree, failAt)) : CheckLog(tree, failAt)[i] = n
FinalSchema(tree, failAt, n) == IF HasChecker(tree[n]) /\ Ran(tree, failAt, n) /\ n # failAt THEN SchemaOf(tree, failAt, n) ELSE (IF tree[n].k = "term" THEN "t" ELSE "")
\* a SECOND pass over the same node objects (checkers that now answer with the tag "r", none fails): every checker runs
\* again, whatever the first pass left on the nodes, and every node carries the schema of the second pass afterwards
SecondCheck(tree) == [log |-> CheckOrder(tree), failed |-> FALSE,
                      schemas |-> [n \in 1..Len(tree) |-> SchemaOfT(tree, 0, n, "r")]]

\* ---- Transform -------------------------------------------------------------------------
\* log of TransformNode calls (pre-order over the nodes reached); a node with its own transformer is replaced by
\* a terminal "x<id>" and its subtree is NOT visited; failAt: that node's transformer returns an error
RECURSIVE TransformLog(_, _, _)
TransformLog(tree, failAt, n) ==   \* <<log, failed>>
  LET nd == tree[n] IN
  IF ~IsNT(nd) THEN <<<<>>, FALSE>>
  ELSE IF HasTransformer(nd) THEN <<<<n>>, n = failAt>>
  ELSE LET RECURSIVE Kids(_, _)
           Kids(i, acc) == IF i > Len(nd.kids) THEN <<acc, FALSE>>
                           ELSE LET r == TransformLog(tree, failAt, nd.kids[i]) IN
                                IF r[2] THEN <<acc \o r[1], TRUE>> ELSE Kids(i + 1, acc \o r[1])
       IN Kids(1, <<>>)
\* rendering of the transformed tree: t<id> e<id> x<id> n<id>(...)
RECURSIVE Render(_, _)
Render(tree, n) ==
  LET nd == tree[n]
      RECURSIVE KS(_)
      KS(i) == IF i > Len(nd.kids) THEN "" ELSE Render(tree, nd.kids[i]) \o (IF i < Len(nd.kids) THEN "," ELSE "") \o KS(i + 1)
  IN IF nd.k = "term" THEN "t" \o ToString(n) ELSE IF nd.k = "empty" THEN "e"
     ELSE "n" \o ToString(n) \o "(" \o KS(1) \o ")"
RECURSIVE RenderT(_, _)
RenderT(tree, n) ==
  LET nd == tree[n]
      RECURSIVE KS(_)
      KS(i) == IF i > Len(nd.kids) THEN "" ELSE RenderT(tree, nd.kids[i]) \o (IF i < Len(nd.kids) THEN "," ELSE "") \o KS(i + 1)
  IN IF nd.k = "term" THEN "t" \o ToString(n) ELSE IF nd.k = "empty" THEN "e"
     ELSE IF Replaced(nd) THEN "x" \o ToString(n)
     ELSE IF nd.cap = "keep" THEN Render(tree, n)
     ELSE "n" \o ToString(n) \o "(" \o KS(1) \o ")"

\* ---- Evaluate ------------------------------------------------------------------------------
\* the recording interpreter of node n logs n, then evaluates its children in order; failAt: Eval of that node fails
RECURSIVE EvalLog(_, _, _)
EvalLog(tree, failAt, n) ==   \* <<log, failed>>
  LET nd == tree[n] IN
  IF nd.k = "term" THEN <<<<>>, FALSE>>
  ELSE IF nd.k = "empty" THEN <<<<>>, TRUE>>            \* an Empty node has no value: ErrNoValue
  ELSE IF n = failAt THEN <<<<n>>, TRUE>>
  ELSE LET RECURSIVE Kids(_, _)
           Kids(i, acc) == IF i > Len(nd.kids) THEN <<acc, FALSE>>
                           ELSE LET r == EvalLog(tree, failAt, nd.kids[i]) IN
                                IF r[2] THEN <<acc \o r[1], TRUE>> ELSE Kids(i + 1, acc \o r[1])
       IN Kids(1, <<n>>)

\* ---- parsley.Parse with transformation and static checking enabled (parse.go) ------------------------------------
\* the tree the parser returned is transformed first; the static check then walks the TRANSFORMED tree (nodes replaced by
\* their transformer's result are terminals now, their subtrees are gone); the first failure of either pass aborts
RECURSIVE ShieldedFrom(_, _, _)
ShieldedFrom(tree, n, under) ==      \* the nodes below a "keep" node: no transformer reaches them
  (IF under THEN {n} ELSE {}) \cup
  UNION {ShieldedFrom(tree, tree[n].kids[i], under \/ tree[n].cap = "keep") : i \in 1..Len(tree[n].kids)}
Transformed(tree) == LET sh == ShieldedFrom(tree, 1, FALSE) IN
  [i \in 1..Len(tree) |-> IF Replaced(tree[i]) /\ i \notin sh THEN [k |-> "term", cap |-> "", kids |-> <<>>] ELSE tree[i]]
ParseApiLog(tree, tfail, cfail) ==     \* <<transform log, check log, failed>>
  LET tl == TransformLog(tree, tfail, 1) IN
  IF tl[2] THEN <<tl[1], <<>>, TRUE>>
  ELSE LET t2 == Transformed(tree) IN <<tl[1], CheckLog(t2, cfail), CheckFails(t2, cfail)>>

\* a SECOND evaluation of the same node objects (no failure this time): evaluation keeps nothing on the nodes that would
\* shorten or change a later one.  (Transform is different: it rebuilds the children IN PLACE, a transformed tree is a new input.)
SecondEval(tree) == LET el == EvalLog(tree, 0, 1) IN [log |-> el[1], failed |-> el[2]]

\* evaluation needs an interpreter for every non-terminal
Evaluable(tree) == \A n \in 1..Len(tree) : IsNT(tree[n]) => tree[n].cap # "none"

\* ---- the Walk machine (explicit stack) ----------------------------------------------------------
CONSTANTS Trees, Lists, StopKs
VARIABLES tree, list, stopK, todo, visited, result
vars == <<tree, list, stopK, todo, visited, result>>

\* todo: stack of <<node id, next child index>>; result: "run" | "stopped" | "done"
Init == \E t \in Trees, li \in Lists, k \in StopKs :
          /\ tree = t /\ list = li /\ stopK = k
          /\ todo = IF li THEN <<<<0, 1>>, <<1, 1>>>> ELSE <<<<1, 1>>>>   \* the list (id 0) visits element 1 first
          /\ visited = <<>> /\ result = "run"

KidsOf(n) == IF n = 0 \/ IsHdr(n) THEN <<>> ELSE IF tree[n].k = "blk" THEN <<HdrOf(n)>> \o tree[n].kids ELSE tree[n].kids
Descend ==
  /\ result = "run" /\ todo # <<>>
  /\ LET top == todo[Len(todo)] IN
     /\ top[2] <= Len(KidsOf(top[1]))
     /\ todo' = Append([todo EXCEPT ![Len(todo)] = <<top[1], top[2] + 1>>], <<KidsOf(top[1])[top[2]], 1>>)
  /\ UNCHANGED <<tree, list, stopK, visited, result>>
Visit ==
  /\ result = "run" /\ todo # <<>>
  /\ LET top == todo[Len(todo)] IN
     /\ top[2] > Len(KidsOf(top[1]))
     /\ visited' = Append(visited, top[1])
     /\ IF Len(visited') = stopK
        THEN result' = "stopped" /\ todo' = <<>>          \* the callback returned true: every enclosing Walk returns at once
        ELSE /\ todo' = SubSeq(todo, 1, Len(todo) - 1)
             /\ result' = IF Len(todo) = 1 THEN "done" ELSE "run"
  /\ UNCHANGED <<tree, list, stopK>>
Next == Descend \/ Visit \/ (result # "run" /\ UNCHANGED vars)

\* C13 (Walk): what has been visited is a prefix of the post-order, nothing is visited twice, and at the end the
\* visits are exactly WalkLog
PrefixOfPostOrder == visited = Take(FullOrder(tree, list), Len(visited))
OnceEach == \A i, j \in 1..Len(visited) : i # j => visited[i] # visited[j]
EndState == result # "run" => /\ visited = WalkLog(tree, list, stopK)
                              /\ (result = "stopped") = WalkResult(tree, list, stopK)
\* children before parents, always
ChildrenFirst == \A i \in 1..Len(visited) : visited[i] # 0 =>
                    \A c \in 1..Len(KidsOf(visited[i])) : \E j \in 1..(i - 1) : visited[j] = KidsOf(visited[i])[c]
=============================================================================
