---------------------------- MODULE IntData ----------------------------
(***************************************************************************)
(* data.IntSet / data.IntMap of opsidian/parsley as persistent values.     *)
(*                                                                         *)
(* The abstract state is the sequence `vals` of every value that any       *)
(* operation has produced so far (a "heap" of immutable values).  Every    *)
(* action applies one exported operation of the Go package to operands     *)
(* chosen among ALL previously produced values and appends the result.     *)
(* A value is [t |-> "set", v |-> a set of ints] or                        *)
(* [t |-> "map", v |-> a function from a finite set of ints to ints].      *)
(*                                                                         *)
(* Property C15: every operation returns what the plain set / map model    *)
(* gives, sets iterate ascending without duplicates, and no operation      *)
(* ever changes a value obtained earlier (vals is append-only, and a real  *)
(* value re-observed later reads exactly like vals[i]).                    *)
(*                                                                         *)
(* `hist` is a history variable (the operations applied so far); it is     *)
(* what the model->code direction exports and the Go harness replays.      *)
(***************************************************************************)
EXTENDS Integers, Sequences, FiniteSets, TLC

CONSTANTS D,          \* the integer domain of elements and keys
          MaxArgs,    \* NewIntSet(values ...int): at most this many arguments
          MaxCnt,     \* NewIntMap(data): values 0..MaxCnt (an entry may be present with the value 0)
          MaxOps,     \* length bound of explored histories (operations after the prefix)
          Prefix,     \* operations (hist records) applied before the exploration starts: values with shared history
          AllowNew    \* FALSE: the explored operations are Insert / Union / Inc / Filter only

VARIABLES vals, hist
vars == <<vals, hist>>

SetV(s) == [t |-> "set", v |-> s]
MapV(m) == [t |-> "map", v |-> m]
EmptyMap == [x \in {} |-> 0]

IsSet(i) == vals[i].t = "set"
IsMap(i) == vals[i].t = "map"
Idx == 1..Len(vals)

Range(s) == {s[i] : i \in 1..Len(s)}

\* ---- the operations as functions on model values ----------------------
NewIntSetOp(args) == SetV(Range(args))
InsertOp(a, x) == SetV(a.v \cup {x})
UnionOp(a, b) == SetV(a.v \cup b.v)
NewIntMapOp(m) == MapV(m)
IncOp(a, k) == MapV([x \in (DOMAIN a.v) \cup {k} |->
                        IF x = k THEN (IF k \in DOMAIN a.v THEN a.v[k] + 1 ELSE 1) ELSE a.v[x]])
FilterOp(a, b) == MapV([x \in (DOMAIN a.v) \cap b.v |-> a.v[x]])

\* ---- observers ---------------------------------------------------------
RECURSIVE SortedSeq(_)
SortedSeq(S) == IF S = {} THEN <<>>
                ELSE LET m == CHOOSE x \in S : \A y \in S : x <= y
                     IN <<m>> \o SortedSeq(S \ {m})
\* what a value looks like through the exported API:
\*   set: Each() in order  (Len() = Len of it)
\*   map: <<key, Get(key)>> for Keys() sorted; Get of an absent key is 0
Observe(val) ==
  IF val.t = "set" THEN SortedSeq(val.v)
  ELSE LET ks == SortedSeq(DOMAIN val.v) IN [i \in 1..Len(ks) |-> <<ks[i], val.v[ks[i]]>>]
GetOf(val, k) == IF k \in DOMAIN val.v THEN val.v[k] ELSE 0

\* ---- actions -----------------------------------------------------------
Push(v, h) == /\ vals' = Append(vals, v)
              /\ hist' = Append(hist, h)

ArgSeqs == UNION {[1..n -> D] : n \in 0..MaxArgs}
MapLits == UNION {[S -> 0..MaxCnt] : S \in SUBSET D}

\* parameterised by their arguments so that the trace specification can reuse them
DoNewIntSet(args) == Push(NewIntSetOp(args), [op |-> "NewIntSet", args |-> args, a |-> 0, b |-> 0])
DoInsert(i, x) == i \in Idx /\ IsSet(i) /\ Push(InsertOp(vals[i], x), [op |-> "Insert", args |-> <<x>>, a |-> i, b |-> 0])
DoUnion(i, j) == i \in Idx /\ j \in Idx /\ IsSet(i) /\ IsSet(j)
                 /\ Push(UnionOp(vals[i], vals[j]), [op |-> "Union", args |-> <<>>, a |-> i, b |-> j])
\* a map literal travels as the flat sequence k1, v1, k2, v2, ... (keys ascending)
FlatOf(m) == LET ks == SortedSeq(DOMAIN m) IN
             [q \in 1..(2 * Len(ks)) |-> IF q % 2 = 1 THEN ks[(q + 1) \div 2] ELSE m[ks[q \div 2]]]
MapOfFlat(f) == [k \in {f[2 * q - 1] : q \in 1..(Len(f) \div 2)} |->
                    f[2 * (CHOOSE q \in 1..(Len(f) \div 2) : f[2 * q - 1] = k)]]
\* the package-level values data.EmptyIntSet / data.EmptyIntMap: shared by every user of the package, values like any other
DoEmptyIntSet == Push(SetV({}), [op |-> "EmptyIntSet", args |-> <<>>, a |-> 0, b |-> 0])
DoEmptyIntMap == Push(MapV(EmptyMap), [op |-> "EmptyIntMap", args |-> <<>>, a |-> 0, b |-> 0])
DoNewIntMap(m) == Push(NewIntMapOp(m), [op |-> "NewIntMap", args |-> FlatOf(m), a |-> 0, b |-> 0])
DoInc(i, k) == i \in Idx /\ IsMap(i) /\ Push(IncOp(vals[i], k), [op |-> "Inc", args |-> <<k>>, a |-> i, b |-> 0])
DoFilter(i, j) == i \in Idx /\ j \in Idx /\ IsMap(i) /\ IsSet(j)
                  /\ Push(FilterOp(vals[i], vals[j]), [op |-> "Filter", args |-> <<>>, a |-> i, b |-> j])

NewIntSet == \E args \in ArgSeqs : DoNewIntSet(args)
Insert == \E i \in Idx, x \in D : DoInsert(i, x)
Union == \E i \in Idx, j \in Idx : DoUnion(i, j)
NewIntMap == \E m \in MapLits : DoNewIntMap(m)
Inc == \E i \in Idx, k \in D : DoInc(i, k)
Filter == \E i \in Idx, j \in Idx : DoFilter(i, j)

\* the value a recorded operation produces from the values before it
ApplyOp(vs, h) ==
  CASE h.op = "NewIntSet" -> NewIntSetOp(h.args)
    [] h.op = "Insert" -> InsertOp(vs[h.a], h.args[1])
    [] h.op = "Union" -> UnionOp(vs[h.a], vs[h.b])
    [] h.op = "NewIntMap" -> NewIntMapOp(MapOfFlat(h.args))
    [] h.op = "EmptyIntSet" -> SetV({})
    [] h.op = "EmptyIntMap" -> MapV(EmptyMap)
    [] h.op = "Inc" -> IncOp(vs[h.a], h.args[1])
    [] h.op = "Filter" -> FilterOp(vs[h.a], vs[h.b])
RECURSIVE ApplyAll(_, _)
ApplyAll(ops, vs) == IF ops = <<>> THEN vs ELSE ApplyAll(Tail(ops), Append(vs, ApplyOp(vs, Head(ops))))

Init == vals = ApplyAll(Prefix, <<>>) /\ hist = Prefix
Next == /\ Len(hist) < Len(Prefix) + MaxOps
        /\ \/ (AllowNew /\ (NewIntSet \/ NewIntMap \/ DoEmptyIntSet \/ DoEmptyIntMap))
           \/ Insert \/ Union \/ Inc \/ Filter
Spec == Init /\ [][Next]_vars

\* ---- properties (C15) ---------------------------------------------------
TypeOK == \A i \in Idx : \/ vals[i].t = "set" /\ IsFiniteSet(vals[i].v)
                         \/ vals[i].t = "map" /\ IsFiniteSet(DOMAIN vals[i].v)

\* a value obtained earlier is never changed by a later operation
Persistent == [][\A i \in 1..Len(vals) : vals'[i] = vals[i]]_vars

\* iteration order: ascending, no duplicates, exactly the members
SortedNoDup(s) == \A i \in 1..Len(s) : \A j \in 1..Len(s) : i < j => s[i] < s[j]
EachOrdered == \A i \in Idx : IsSet(i) =>
                  LET s == Observe(vals[i]) IN SortedNoDup(s) /\ Range(s) = vals[i].v /\ Len(s) = Cardinality(vals[i].v)

\* algebra the consumers (Memoize, Seq, Any) rely on
Algebra == \A i \in Idx, j \in Idx :
             /\ IsSet(i) /\ IsSet(j) => UnionOp(vals[i], vals[j]) = UnionOp(vals[j], vals[i])
             /\ IsSet(i) => UnionOp(vals[i], vals[i]) = vals[i]
             /\ IsMap(i) /\ IsSet(j) => DOMAIN FilterOp(vals[i], vals[j]).v \subseteq vals[j].v
             /\ IsMap(i) => \A k \in D : GetOf(IncOp(vals[i], k), k) = GetOf(vals[i], k) + 1
=============================================================================
