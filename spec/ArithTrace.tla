----------------------------- MODULE ArithTrace -----------------------------
(* Judge for C05: results of parsley.Evaluate on the real left-recursive grammar for recorded inputs.               *)
(*  {"text":[bytes],"ok":bool,"val":int,"err":"...","tree":"left"|"other"|""}                                      *)
EXTENDS Arith, Json, IOUtils
Trace == ndJsonDeserialize(IOEnv.TRACE)
VARIABLE l
ASSUME TLCSet(42, 0)
Ev == Trace[l]

Prefix(s, p) == Len(s) >= Len(p) /\ SubSeq(s, 1, Len(p)) = p
LineOK ==
  LET o == Outcome(Ev.text) IN
  /\ "panic" \notin DOMAIN Ev
  /\ CASE o.k = "v" -> Ev.ok /\ Ev.val = o.v                                  \* the value of the reference evaluator
       [] o.k = "dz" -> ~Ev.ok /\ Ev.err = DivZeroText(Ev.text, o.pos)          \* reported at the offending operator
       [] o.k = "ill" -> ~Ev.ok /\ Ev.parseerr                                   \* rejected with a parse error
       [] OTHER -> TRUE                                                        \* outside the modelled domain: totality only
TraceInit == l = 1
TraceNext == l <= Len(Trace) /\ l' = l + 1 /\ LineOK
Hwm == TLCSet(42, IF l > TLCGet(42) THEN l ELSE TLCGet(42))
Accepted == IF TLCGet(42) = Len(Trace) + 1 THEN TRUE ELSE Print(<<"REJECTED at line", TLCGet(42)>>, FALSE)
=============================================================================
