CONSTANTS Names <- NoNames  Contents = {}  MaxFiles = 0
INIT TraceInit
NEXT TraceNext
INVARIANTS Hwm NoOverlap NextAbove
POSTCONDITION Accepted
CHECK_DEADLOCK FALSE
