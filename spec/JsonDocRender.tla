--------------------------- MODULE JsonDocRender ---------------------------
(* Renders abstract documents proposed by the harness' random generator: the specification is the only renderer.      *)
(* input lines: {"v":..,"pat":[..],"kind":"none"|"trunc"|"trail"|"drop","r":n}; the corruption position is the       *)
(* (r mod #applicable)-th applicable one; output: one JSON line per input line with cor and text.                     *)
EXTENDS JsonDoc, Json, IOUtils, SequencesExt
In == ndJsonDeserialize(IOEnv.TRACE)
VARIABLE l
Init == l = 1
Next == l <= Len(In) /\ l' = l + 1
CorOf(v, ts, kind, r) ==
  IF kind = "none" THEN <<"none", 0>>
  ELSE LET cand == IF kind = "trail" THEN {<<"trail", k>> : k \in 1..Len(Trailers)}
                   ELSE {cor \in {kind} \X (1..(Len(ts) + 1)) : Applicable(v, ts, cor)}
           sq == SetToSortSeq(cand, LAMBDA a, b : a[2] < b[2])
       IN IF cand = {} THEN <<"none", 0>> ELSE sq[(r % Len(sq)) + 1]
Export ==
  l <= Len(In) =>
    LET e == In[l] ts == DocTokens(e.v, e.pat) cor == CorOf(e.v, ts, e.kind, e.r) IN
    PrintT(ToJson([v |-> e.v, pat |-> e.pat, cor |-> cor, text |-> Text(Corrupt(ts, cor)),
                   class |-> DocClass(e.v, e.pat, cor), skel |-> Skel(e.v)]))
=============================================================================
