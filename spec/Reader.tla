------------------------------- MODULE Reader -------------------------------
(***************************************************************************)
(* text.Reader of opsidian/parsley: the byte-level meaning of every reader  *)
(* primitive for a file with (CRLF-normalised) content `data` placed at     *)
(* base offset `base` of a file set.  A global position pos denotes the     *)
(* cursor cur = pos - base, 0 <= cur <= Len(data).                          *)
(*                                                                          *)
(* The primitives are operators of (data, base, pos, argument); the module  *)
(* is also a small state machine (a cursor walking through the file by      *)
(* successful matches) so that TLC can check the bounds clause of C09 as an *)
(* invariant and visit every (content, base, position).                     *)
(*                                                                          *)
(* The regular-expression engine is NOT specified: ReadRegexp is specified   *)
(* relative to an oracle rx = length of the match of ^(?:expr) on the suffix *)
(* (-1: no match), which the harness computes with Go's regexp package       *)
(* independently of parsley.                                                 *)
(***************************************************************************)
EXTENDS Integers, Sequences, FiniteSets, TLC

RuneError == 65533

Cur(b, pos) == pos - b
At(d, cur) == d[cur + 1]          \* byte at 0-based cursor

\* ---- utf8.DecodeRune on the suffix starting at cursor cur: <<rune, width>> ----
Cont(x) == x >= 128 /\ x <= 191
Decode(d, cur) ==
  LET n == Len(d) - cur
      b0 == At(d, cur)
      b1 == At(d, cur + 1)
      b2 == At(d, cur + 2)
      b3 == At(d, cur + 3)
      bad == <<RuneError, 1>>
  IN IF b0 < 128 THEN <<b0, 1>>
     ELSE IF b0 >= 194 /\ b0 <= 223
          THEN IF n >= 2 /\ Cont(b1) THEN <<(b0 - 192) * 64 + (b1 - 128), 2>> ELSE bad
     ELSE IF b0 >= 224 /\ b0 <= 239
          THEN IF n >= 3 /\ Cont(b1) /\ Cont(b2)
                  /\ (b0 = 224 => b1 >= 160) /\ (b0 = 237 => b1 <= 159)
               THEN <<(b0 - 224) * 4096 + (b1 - 128) * 64 + (b2 - 128), 3>> ELSE bad
     ELSE IF b0 >= 240 /\ b0 <= 244
          THEN IF n >= 4 /\ Cont(b1) /\ Cont(b2) /\ Cont(b3)
                  /\ (b0 = 240 => b1 >= 144) /\ (b0 = 244 => b1 <= 143)
               THEN <<(b0 - 240) * 262144 + (b1 - 128) * 4096 + (b2 - 128) * 64 + (b3 - 128), 4>> ELSE bad
     ELSE bad

\* ---- primitives: every result is a record with the new position -----------------
ReadRune(d, b, pos, ch) ==
  LET cur == Cur(b, pos) IN
  IF cur >= Len(d) THEN [pos |-> pos, ok |-> FALSE]
  ELSE IF ch < 128
       THEN IF At(d, cur) = ch THEN [pos |-> pos + 1, ok |-> TRUE] ELSE [pos |-> pos, ok |-> FALSE]
       ELSE LET r == Decode(d, cur) IN
            IF r[1] = ch THEN [pos |-> pos + r[2], ok |-> TRUE] ELSE [pos |-> pos, ok |-> FALSE]

HasPrefix(d, cur, s) == Len(s) <= Len(d) - cur /\ \A i \in 1..Len(s) : At(d, cur + i - 1) = s[i]

\* MatchString(pos, str), str a non-empty byte sequence
MatchString(d, b, pos, s) ==
  IF HasPrefix(d, Cur(b, pos), s) THEN [pos |-> pos + Len(s), ok |-> TRUE] ELSE [pos |-> pos, ok |-> FALSE]

IsWordChar(x) == (x >= 97 /\ x <= 122) \/ (x >= 65 /\ x <= 90) \/ (x >= 48 /\ x <= 57) \/ x = 95
\* MatchWord(pos, word), word a non-empty ASCII byte sequence: the word, not followed by a word character
MatchWord(d, b, pos, s) ==
  LET cur == Cur(b, pos) IN
  IF HasPrefix(d, cur, s) /\ (cur + Len(s) = Len(d) \/ ~IsWordChar(At(d, cur + Len(s))))
  THEN [pos |-> pos + Len(s), ok |-> TRUE] ELSE [pos |-> pos, ok |-> FALSE]

Remaining(d, b, pos) == Len(d) - Cur(b, pos)
IsEOF(d, b, pos) == Cur(b, pos) >= Len(d)

\* SkipWhitespaces(pos, mode): the run of SP, TAB, LF, FF is always skipped; the mode decides the error
IsWs(x) == x \in {32, 9, 10, 12}
IsNl(x) == x \in {10, 12}
RECURSIVE RunEndC(_, _)
RunEndC(d, cur) == IF cur < Len(d) /\ IsWs(At(d, cur)) THEN RunEndC(d, cur + 1) ELSE cur
RECURSIVE FirstNlC(_, _, _)
FirstNlC(d, cur, end) == IF cur >= end THEN -1 ELSE IF IsNl(At(d, cur)) THEN cur ELSE FirstNlC(d, cur + 1, end)
NoErr == <<>>
SkipWs(d, b, pos, mode) ==
  LET cur == Cur(b, pos)
      end == RunEndC(d, cur)
      nl == FirstNlC(d, cur, end)
  IN [pos |-> b + end,
      err |-> CASE mode = "none" /\ end > cur -> <<pos, "whitespaces are not allowed">>
                [] mode = "forcenl" /\ nl < 0 -> <<b + end, "was expecting a new line">>
                [] mode = "spaces" /\ nl >= 0 -> <<b + nl, "new line is not allowed">>
                [] OTHER -> NoErr]

\* ReadRegexp(pos, expr) relative to the oracle rx (length of the match at the suffix, -1 if none)
ReadRegexp(d, b, pos, rx) ==
  LET cur == Cur(b, pos) IN
  IF cur >= Len(d) \/ rx < 0 THEN [pos |-> pos, val |-> <<>>, ok |-> FALSE]
  ELSE [pos |-> pos + rx, val |-> SubSeq(d, cur + 1, cur + rx), ok |-> TRUE]

\* Readf(pos, f) for the two custom functions of the harness:
\*  "digits": the run of ASCII digits, value = the digits
\*  "pair":   if the suffix starts with 'a' and has at least 2 bytes: consumes 2 bytes, value = the single byte 'X'
RECURSIVE DigitsEnd(_, _)
DigitsEnd(d, cur) == IF cur < Len(d) /\ At(d, cur) >= 48 /\ At(d, cur) <= 57 THEN DigitsEnd(d, cur + 1) ELSE cur
Readf(d, b, pos, fn) ==
  LET cur == Cur(b, pos) IN
  IF cur >= Len(d) THEN [pos |-> pos, val |-> <<>>, ok |-> FALSE]
  ELSE IF fn = "digits"
       THEN LET e == DigitsEnd(d, cur) IN
            IF e = cur THEN [pos |-> pos, val |-> <<>>, ok |-> FALSE]
            ELSE [pos |-> b + e, val |-> SubSeq(d, cur + 1, e), ok |-> TRUE]
       ELSE IF At(d, cur) = 97 /\ Len(d) - cur >= 2 THEN [pos |-> pos + 2, val |-> <<88>>, ok |-> TRUE]
            ELSE [pos |-> pos, val |-> <<>>, ok |-> FALSE]

\* ---- the cursor machine ------------------------------------------------------------
CONSTANTS Contents, Bases, Runes, Strings, Words

VARIABLES data, base, pos
vars == <<data, base, pos>>

Init == \E c \in Contents, b \in Bases : data = c /\ base = b /\ pos = b

Move(r) == r.ok /\ pos' = r.pos /\ UNCHANGED <<data, base>>
Next ==
  \/ \E ch \in Runes : Move(ReadRune(data, base, pos, ch))
  \/ \E s \in Strings : Move(MatchString(data, base, pos, s))
  \/ \E s \in Words : Move(MatchWord(data, base, pos, s))
  \/ \E fn \in {"digits", "pair"} : Move(Readf(data, base, pos, fn))
  \/ LET r == SkipWs(data, base, pos, "nl") IN r.pos > pos /\ pos' = r.pos /\ UNCHANGED <<data, base>>
  \/ (~IsEOF(data, base, pos) /\ pos' = pos + 1 /\ UNCHANGED <<data, base>>)     \* any other consumer of one byte

\* C09, bounds: a match moves forward by the matched length and never beyond the end of the file
InBounds == base <= pos /\ pos <= base + Len(data)
MatchAdvances ==
  /\ \A ch \in Runes : LET r == ReadRune(data, base, pos, ch) IN
        IF r.ok THEN r.pos > pos /\ r.pos <= base + Len(data) ELSE r.pos = pos
  /\ \A s \in Strings : LET r == MatchString(data, base, pos, s) IN
        IF r.ok THEN r.pos = pos + Len(s) /\ r.pos <= base + Len(data) ELSE r.pos = pos
  /\ \A s \in Words : LET r == MatchWord(data, base, pos, s) IN
        IF r.ok THEN r.pos = pos + Len(s) /\ r.pos <= base + Len(data) ELSE r.pos = pos
  /\ \A m \in {"none", "spaces", "nl", "forcenl"} : LET r == SkipWs(data, base, pos, m) IN
        /\ r.pos >= pos /\ r.pos <= base + Len(data)
        /\ r.err # NoErr => r.err[1] >= pos /\ r.err[1] <= r.pos
  /\ Remaining(data, base, pos) >= 0
  /\ IsEOF(data, base, pos) <=> Remaining(data, base, pos) = 0
=============================================================================
