------------------------------ MODULE Grammar ------------------------------
(***************************************************************************)
(* Grammars as data, and the bounded families the exhaustive explorations   *)
(* quantify over.                                                           *)
(*                                                                          *)
(* A grammar is written as a sequence of BODIES, one expression tree per    *)
(* nonterminal; Build() flattens it into the node sequence the machine and  *)
(* the oracle work on:                                                      *)
(*    node i (1 <= i <= #nonterminals)   memo node of nonterminal i         *)
(*    then the nodes of the bodies in post-order                            *)
(*    last two nodes                      End, and Sentence = SeqOf(NT1,End)*)
(* An expression is a record [k, mode, kids, ch, name] like a node, except   *)
(* that kids are expressions; [k |-> "ref", i |-> j] refers to nonterminal j.*)
(***************************************************************************)
EXTENDS Integers, Sequences, FiniteSets, TLC

N(k, mode, kids, ch, name) == [k |-> k, mode |-> mode, kids |-> kids, ch |-> ch, name |-> name]

\* ---- expression constructors ----------------------------------------------
Quote(c) == IF c = 97 THEN "was expecting \"a\"" ELSE IF c = 98 THEN "was expecting \"b\""
            ELSE IF c = 120 THEN "was expecting \"x\"" ELSE IF c = 121 THEN "was expecting \"y\""
            ELSE IF c = 99 THEN "was expecting \"c\"" ELSE IF c = 100 THEN "was expecting \"d\""
            ELSE IF c = 32 THEN "was expecting \" \""
            ELSE IF c = 37 THEN "was expecting \"%\""
            ELSE IF c = 10 THEN "was expecting \"\\n\"" ELSE "was expecting \"?\""
Tm(c) == N("term", "", <<>>, c, Quote(c))
Eps == N("empty", "", <<>>, 0, "")
EndE == N("end", "", <<>>, 0, "")
Ref(j) == [k |-> "ref", i |-> j]
Opt(e) == N("opt", "", <<e>>, 0, "")
AnyE(es) == N("any", "", es, 0, "")
ChoiceE(es) == N("choice", "", es, 0, "")
Named(e, nm) == N("named", "", <<e>>, 0, nm)
SeqE(mode, es) == N("seq", mode, es, 0, "")
SeqNamed(mode, es, nm) == N("seq", mode, es, 0, nm)
LTrim(e, mode) == N("ltrim", mode, <<e>>, 0, "")
RTrim(e, mode) == N("rtrim", mode, <<e>>, 0, "")

\* ---- flattening --------------------------------------------------------------
RECURSIVE Flat(_, _), FlatKids(_, _, _, _)
\* returns <<nodes so far, id of the node for e>>
Flat(e, acc) ==
  IF e.k = "ref" THEN <<acc, e.i>>
  ELSE LET r == FlatKids(e.kids, 1, acc, <<>>)
           nd == N(e.k, e.mode, r[2], e.ch, e.name)
       IN <<Append(r[1], nd), Len(r[1]) + 1>>
FlatKids(kids, i, acc, ids) ==
  IF i > Len(kids) THEN <<acc, ids>>
  ELSE LET r == Flat(kids[i], acc) IN FlatKids(kids, i + 1, r[1], Append(ids, r[2]))

RECURSIVE BuildBodies(_, _, _, _)
BuildBodies(bodies, j, acc, tops) ==
  IF j > Len(bodies) THEN <<acc, tops>>
  ELSE LET r == Flat(bodies[j], acc) IN BuildBodies(bodies, j + 1, r[1], Append(tops, r[2]))

\* Build(bodies) = [G |-> node sequence, root |-> Sentence node, nts |-> memo node ids]
Build(bodies) ==
  LET nnt == Len(bodies)
      memo0 == [j \in 1..nnt |-> N("memo", "", <<0>>, 0, "")]
      r == BuildBodies(bodies, 1, memo0, <<>>)
      g1 == [i \in 1..Len(r[1]) |-> IF i <= nnt THEN N("memo", "", <<r[2][i]>>, 0, "") ELSE r[1][i]]
      endId == Len(g1) + 1
      g2 == Append(Append(g1, EndE), N("seq", "of", <<1, endId>>, 0, ""))
  IN [G |-> g2, root |-> endId + 1, nts |-> 1..nnt]

\* the same grammar with every Memoize wrapper in M removed (C03)
Strip(G, M) == [i \in 1..Len(G) |-> IF i \in M /\ G[i].k = "memo" THEN [G[i] EXCEPT !.k = "pass"] ELSE G[i]]

\* every Any / Choice wrapped in a Name: the wrapper nodes are appended, references are redirected
NameAllG(G) ==
  LET idx == {i \in 1..Len(G) : G[i].k \in {"any", "choice"}}
      rank(i) == Cardinality({j \in idx : j <= i})
      newId(i) == IF i \in idx THEN Len(G) + rank(i) ELSE i
      redirected == [i \in 1..Len(G) |-> [G[i] EXCEPT !.kids = [q \in 1..Len(G[i].kids) |-> newId(G[i].kids[q])]]]
      wrappers == [r \in 1..Cardinality(idx) |->
                     LET i == CHOOSE j \in idx : rank(j) = r
                     IN N("named", "", <<i>>, 0, "was expecting N" \o ToString(i))]
  IN redirected \o wrappers

\* extra Memoize wrappers around the nodes in M (C03: any sub-parser may be memoised); wrappers are appended,
\* references are redirected to them (the root Sentence node and existing memo nodes are left alone)
MemoWrapG(G, M) ==
  LET idx == {i \in M : i \in 1..Len(G) /\ G[i].k \notin {"memo", "pass"}}
      rank(i) == Cardinality({j \in idx : j <= i})
      newId(i) == IF i \in idx THEN Len(G) + rank(i) ELSE i
      redirected == [i \in 1..Len(G) |-> [G[i] EXCEPT !.kids = [q \in 1..Len(G[i].kids) |-> newId(G[i].kids[q])]]]
      wrappers == [r \in 1..Cardinality(idx) |-> N("memo", "", <<CHOOSE j \in idx : rank(j) = r>>, 0, "")]
  IN redirected \o wrappers

\* ---- families --------------------------------------------------------------------
\* leaves and atoms over one nonterminal P = Ref(1)
A == Tm(97)
Bt == Tm(98)
Leaves1 == {A, Bt, Eps, Ref(1)}
Atoms1 == {A, Bt, Eps, Ref(1), Opt(A), Opt(Ref(1))}
\* F1: P -> alt | alt alt', an alternative is a SeqOf of 1..2 atoms
AltsOf(atoms, maxlen) == UNION {{SeqE("of", s) : s \in [1..n -> atoms]} : n \in 1..maxlen}
F1Bodies == LET alts == AltsOf(Atoms1, 2)
            IN {AnyE(<<x>>) : x \in alts} \cup {AnyE(<<x, y>>) : x \in alts, y \in alts}
\* F2: one group Any(x, y) / Any(x, y, z) of leaves or optionals in front of one more atom:
\* the shape that hands one cached list to two appending consumers
Groups == {AnyE(<<x, y>>) : x \in Atoms1, y \in Atoms1} \cup
          {AnyE(<<x, y, z>>) : x \in {Ref(1), A}, y \in Atoms1, z \in {Opt(Ref(1)), Opt(A), Eps}}
F2Bodies == {AnyE(<<SeqE("of", <<g, t>>)>>) : g \in Groups, t \in {A, Bt}} \cup
            {AnyE(<<SeqE("of", <<g, t>>), u>>) : g \in Groups, t \in {A, Bt}, u \in {A, Bt, Eps}}
\* non-monotone operators placed over F1-style operands (operands of repetitions consume)
NMBodies ==
  LET ops == {A, Bt, Ref(1), Opt(A), Opt(Ref(1))}
      cons == {A, Bt, SeqE("of", <<A, Opt(Ref(1))>>), SeqE("of", <<Bt, Ref(1)>>)}
      nm == {ChoiceE(<<x, y>>) : x \in ops, y \in ops} \cup
            {SeqE("try", <<x, y>>) : x \in ops, y \in ops} \cup
            {SeqE("foa", <<x, y, z>>) : x \in {A, Ref(1)}, y \in ops, z \in {A, Bt}} \cup
            {SeqE(m, <<c>>) : m \in {"many", "many1"}, c \in cons} \cup
            {SeqE(m, <<c, s>>) : m \in {"sepby", "sepby1"}, c \in cons, s \in {A, Bt}}
  IN {AnyE(<<x>>) : x \in nm} \cup {AnyE(<<x, t>>) : x \in nm, t \in {A, Bt}} \cup
     {AnyE(<<SeqE("of", <<x, t>>), u>>) : x \in nm, t \in {A, Bt}, u \in {A, Eps}}

\* left-recursion-free bodies (C03): right / centre recursion, ambiguity, optionals, non-monotone operators
LRFreeBodies ==
  LET at == {A, Bt, Opt(A), Eps}
      tails == {Ref(1), Opt(Ref(1)), A, Bt}
      alts == {SeqE("of", <<x>>) : x \in {A, Bt, Eps}} \cup {SeqE("of", <<x, y>>) : x \in {A, Bt}, y \in tails} \cup
              {SeqE("of", <<x, y, z>>) : x \in {A, Bt}, y \in {Ref(1), Opt(A)}, z \in {A, Bt}}
      nm == {SeqE("many", <<AnyE(<<A, SeqE("of", <<Bt, A>>)>>)>>), SeqE("sepby1", <<AnyE(<<A, SeqE("of", <<A, A>>)>>), Bt>>),
             ChoiceE(<<SeqE("of", <<A, Ref(1)>>), A, Eps>>), SeqE("try", <<A, Opt(Bt), A>>), SeqE("foa", <<A, Bt, A>>)}
  IN {AnyE(<<x, y>>) : x \in alts, y \in alts} \cup {AnyE(<<x>>) : x \in nm} \cup {AnyE(<<x, SeqE("of", <<A, Ref(1)>>)>>) : x \in nm}

\* hidden left recursion behind nullable prefixes (C02's family); x = 120, y = 121
X == Tm(120)
Y == Tm(121)
HiddenBodies ==
  LET pre == {<<Opt(X)>>, <<Opt(X), Opt(Y)>>, <<Opt(Ref(1))>>, <<Eps>>, <<Opt(X), Eps>>, <<AnyE(<<X, Eps>>)>>,
              <<SeqE("many", <<X>>)>>, <<ChoiceE(<<X, Eps>>)>>}
  IN {AnyE(<<SeqE("of", p \o <<Ref(1), Bt>>), A>>) : p \in pre} \cup
     {AnyE(<<A, SeqE("of", p \o <<Ref(1), Bt>>)>>) : p \in pre}

\* hidden left recursion THROUGH A SECOND nonterminal: P -> P b | R c | a (in every order), R -> pre P d
Ct == Tm(99)
Dt == Tm(100)
Perms3(x, y, z) == {<<x, y, z>>, <<x, z, y>>, <<y, x, z>>, <<y, z, x>>, <<z, x, y>>, <<z, y, x>>}
Hidden2Pairs ==
  LET pre == {<<>>, <<Opt(X)>>, <<Eps>>, <<Opt(Ref(2))>>, <<SeqE("many", <<X>>)>>, <<Opt(X), Opt(Y)>>}
      pAlts == Perms3(SeqE("of", <<Ref(1), Bt>>), SeqE("of", <<Ref(2), Ct>>), A)
  IN {<<AnyE(pa), SeqE("of", p \o <<Ref(1), Dt>>)>> : pa \in pAlts, p \in pre} \cup
     {<<AnyE(pa), AnyE(<<SeqE("of", p \o <<Ref(1), Dt>>), Dt>>)>> : pa \in pAlts, p \in pre}

\* Optional over operands that consume before they fail, inside sequences (an element that returns a result
\* AND an error), with and without an enclosing Any
OptBodies ==
  LET inner == {SeqE("of", <<x, y>>) : x \in {A, Bt}, y \in {A, Bt, Ref(1)}} \cup
               {SeqE("many1", <<SeqE("of", <<A, Bt>>)>>), SeqE("sepby1", <<A, Bt>>), SeqE("try", <<A, Bt, A>>)}
      tails == {<<A>>, <<Bt>>, <<Bt, A>>, <<Opt(A), Bt>>}
  IN {SeqE("of", <<Opt(i)>> \o t) : i \in inner, t \in tails} \cup
     {AnyE(<<SeqE("of", <<Opt(i)>> \o t), Bt>>) : i \in inner, t \in tails} \cup
     {SeqE("of", <<A, Opt(i)>> \o t) : i \in inner, t \in tails}

\* terminals that match a line feed, so that errors are reported on later lines (C06)
NLt == Tm(10)
PCt == Tm(37)
LineBodies == {
  SeqE("of", <<SeqE("many", <<AnyE(<<A, NLt>>)>>), Bt>>),
  SeqE("of", <<SeqE("many", <<NLt>>), A, SeqE("many", <<NLt>>), Bt>>),
  AnyE(<<SeqE("of", <<NLt, Ref(1)>>), SeqE("of", <<A, NLt, Bt>>), A>>),
  SeqE("sepby1", <<AnyE(<<A, SeqE("of", <<A, Bt>>)>>), NLt>>),
  SeqE("of", <<Opt(SeqE("of", <<NLt, NLt, A>>)), NLt, Bt>>),
  \* an expectation whose text contains a per-cent sign (the message is data, not a format)
  SeqE("of", <<A, PCt, Bt>>),
  AnyE(<<SeqE("of", <<A, PCt, Ref(1)>>), SeqE("of", <<Bt, AnyE(<<A, Bt>>), PCt>>), A>>),
  \* a Choice that is entered again from one of its own alternatives (right recursion): the failure an earlier alternative
  \* of the outer activation left behind is deeper than everything tried afterwards
  ChoiceE(<<SeqE("of", <<A, Bt, A>>), SeqE("of", <<A, NLt, Ref(1)>>), SeqE("of", <<A, Ref(1)>>), Bt>>),
  ChoiceE(<<SeqE("of", <<A, A, Bt>>), SeqE("of", <<A, Ref(1)>>), Bt>>),
  ChoiceE(<<SeqE("of", <<A, Ref(1), Bt, Bt>>), SeqE("of", <<A, Ref(1), A>>), Bt>>)
}

\* separators and repeated elements of MORE THAN ONE terminal (C06): an item that fails after its first terminal leaves
\* the furthest failure behind a list that ended before it
SepComposite ==
  LET seps == {SeqE("of", <<Bt, Bt>>), SeqE("of", <<Bt, X>>), SeqE("of", <<Bt, Opt(X), Bt>>)}
      vals == {A, SeqE("of", <<A, A>>)}
      lists == {SeqE(m, <<v, sp>>) : m \in {"sepby", "sepby1"}, v \in vals, sp \in seps} \cup
               {SeqE(m, <<SeqE("of", <<A, Bt>>)>>) : m \in {"many", "many1"}}
  IN lists \cup {SeqE("of", <<li, t>>) : li \in lists, t \in {A, X}}

\* one memoised result used both right-trimmed and untrimmed at the same position (C07 / C10):
\* nonterminal 2 = M -> a | a a ; P -> RTrim(M) b | M " " b   (both orders, each trim mode)
SPt == Tm(32)
SingleT(e) == N("single", "", <<e>>, 0, "")
TrimShare ==
  LET m == AnyE(<<A, SeqE("of", <<A, A>>)>>)
      st(mode) == SeqE("of", <<SingleT(RTrim(SeqE("of", <<Ref(2)>>), mode)), Bt>>)
      t(mode) == SeqE("of", <<RTrim(Ref(2), mode), Bt>>)
      u == SeqE("of", <<Ref(2), SPt, Bt>>)
      v == SeqE("of", <<Ref(2), Bt>>)
  IN {<<AnyE(<<t(mode), u>>), m>> : mode \in {"spaces", "nl"}} \cup {<<AnyE(<<u, t(mode)>>), m>> : mode \in {"spaces", "nl"}} \cup
     {<<AnyE(<<st(mode), u>>), A>> : mode \in {"spaces", "nl"}} \cup {<<AnyE(<<u, st(mode), v>>), A>> : mode \in {"spaces"}} \cup
     {<<AnyE(<<v, t("none")>>), m>>, <<AnyE(<<SeqE("of", <<LTrim(Ref(2), "spaces"), Bt>>), SeqE("of", <<SPt, Ref(2), Bt>>)>>), m>>}

\* combinator.Single / SuppressError over memoised results that other alternatives use as well
SingleE(e) == N("single", "", <<e>>, 0, "")
SuppressE(e) == N("suppress", "", <<e>>, 0, "")
SingleBodies ==
  LET q == {AnyE(<<SeqE("of", <<A>>), SeqE("of", <<A, A>>)>>), AnyE(<<SeqE("of", <<A>>)>>), SeqE("of", <<A>>), SeqE("many1", <<A>>),
            AnyE(<<SeqE("of", <<Opt(A)>>), Bt>>)}
      p == {AnyE(<<SeqE("of", <<SingleE(Ref(2)), Bt>>), SeqE("of", <<Ref(2), Bt>>)>>),
            AnyE(<<SeqE("of", <<Ref(2), Bt>>), SeqE("of", <<SingleE(Ref(2)), Bt>>), SeqE("of", <<Ref(2), A>>)>>),
            AnyE(<<SingleE(SeqE("of", <<Ref(2)>>)), SuppressE(SeqE("of", <<Ref(2), Bt>>))>>),
            SeqE("of", <<SuppressE(AnyE(<<SeqE("of", <<A, Bt>>), Ref(2)>>)), Opt(Bt)>>)}
  IN {<<x, y>> : x \in p, y \in q}

\* left recursion that passes through trims (the counters survive a change of position caused by skipped whitespace)
TrimLR ==
  LET core == AnyE(<<SeqE("of", <<Ref(1), Bt>>), A>>)
      modes == {"spaces", "nl", "none"}
  IN {<<LTrim(core, m)>> : m \in modes} \cup {<<RTrim(core, m)>> : m \in {"spaces", "nl"}} \cup
     {<<AnyE(<<SeqE("of", <<LTrim(Ref(1), m), Bt>>), A>>)>> : m \in modes} \cup
     {<<AnyE(<<SeqE("of", <<Ref(1), LTrim(Bt, m)>>), LTrim(A, m)>>)>> : m \in modes} \cup
     {<<AnyE(<<SeqE("of", <<RTrim(Ref(1), m), Bt>>), RTrim(A, m)>>)>> : m \in {"spaces", "nl"}} \cup
     {<<AnyE(<<SeqE("of", <<Opt(SPt), LTrim(Ref(1), "nl"), Bt>>), A>>)>>,
      <<LTrim(AnyE(<<SeqE("of", <<Opt(X), Ref(1), Bt>>), A>>), "spaces")>>}

\* right recursion behind a nullable prefix and a consuming element: P -> pre a P | a   (counters must be reset once input
\* was consumed, whichever element consumed it)
HiddenRight ==
  LET pre == {<<Opt(Bt)>>, <<Eps>>, <<Opt(Bt), Opt(X)>>, <<Opt(Ref(1))>>, <<AnyE(<<Bt, Eps>>)>>, <<SeqE("many", <<Bt>>)>>, <<ChoiceE(<<Bt, Eps>>)>>}
  IN {<<AnyE(<<SeqE("of", p \o <<A, Ref(1)>>), A>>)>> : p \in pre} \cup
     {<<AnyE(<<A, SeqE("of", p \o <<A, Ref(1)>>)>>)>> : p \in pre} \cup
     {<<AnyE(<<SeqE("of", p \o <<A, Ref(1), Bt>>), Eps>>)>> : p \in pre}

\* left-recursion-free recursion behind a nullable prefix AND a consuming element (C03): the counters of the enclosing
\* memoised parsers must be gone once input was consumed, whichever element of the sequence consumed it
LRNullPrefix ==
  LET pre == {<<Opt(Bt)>>, <<Eps>>, <<Opt(Bt), Opt(X)>>, <<AnyE(<<Bt, Eps>>)>>, <<SeqE("many", <<Bt>>)>>, <<ChoiceE(<<Bt, Eps>>)>>}
  IN {<<AnyE(<<SeqE("of", p \o <<A, Ref(1)>>), A>>)>> : p \in pre} \cup
     {<<SeqE("of", p \o <<A, Opt(Ref(1))>>)>> : p \in pre} \cup
     {<<AnyE(<<SeqE("of", p \o <<A, Ref(1), Bt>>), Eps>>)>> : p \in pre} \cup
     {<<SeqE("of", p \o <<A, Ref(2)>>), Opt(Ref(1))>> : p \in pre} \cup
     {<<SeqE("many", <<SeqE("of", p \o <<A, Opt(Ref(1))>>)>>)>> : p \in {<<Opt(Bt)>>, <<Eps>>}}

\* one memoised nonterminal reaching the SAME alternative list twice at one position without being re-wrapped (the cached
\* node object arrives twice; the plain grammar builds two equal nodes), and one memoised nonterminal used under
\* SuppressError first and outside it afterwards (what its first evaluation recorded in the context must stay recorded)
DupAndSuppress ==
  LET q == {SeqE("of", <<A, Bt>>), SeqE("of", <<A>>), SeqE("many1", <<A>>), AnyE(<<SeqE("of", <<A, Bt, A>>), A>>),
            AnyE(<<SeqE("of", <<A>>), SeqE("of", <<A, Bt>>)>>)}
      p == {AnyE(<<Ref(2), ChoiceE(<<X, Ref(2)>>)>>), AnyE(<<Ref(2), Opt(Ref(2))>>), AnyE(<<Ref(2), Ref(2)>>),
            SeqE("of", <<AnyE(<<Ref(2), Ref(2)>>), Opt(Bt)>>), AnyE(<<Ref(2), SeqE("of", <<Ref(2)>>)>>),
            AnyE(<<SeqE("of", <<SuppressE(Ref(2)), X>>), SeqE("of", <<Ref(2), Bt>>)>>),
            AnyE(<<SeqE("of", <<Ref(2), Bt>>), SeqE("of", <<SuppressE(Ref(2)), X>>)>>),
            SeqE("of", <<SuppressE(Opt(SeqE("of", <<Ref(2), X>>))), Ref(2), Opt(Bt)>>)}
      \* a memoised parser that misses SILENTLY (its error is suppressed) and is reached again at the same position
      ps == {AnyE(<<SeqE("of", <<Opt(Ref(2)), A>>), SeqE("of", <<Opt(Ref(2)), Bt>>)>>),
             ChoiceE(<<SeqE("of", <<Opt(Ref(2)), Bt>>), SeqE("of", <<Opt(Ref(2)), A>>), A>>)}
      qs == {SuppressE(X), SuppressE(SeqE("of", <<A, X>>))}
      \* a memoised parser that records its furthest failure behind a run of blanks, a left trim in another alternative that
      \* skips exactly that run and fails there, and the memoised parser reached again afterwards (what the context holds
      \* must not depend on whether the second visit was answered from the cache)
      pt == {AnyE(<<SeqE("of", <<Ref(2), LTrim(X, m)>>), SeqE("of", <<Ref(2), Bt>>)>>) : m \in {"spaces", "nl"}} \cup
            {AnyE(<<SeqE("of", <<Ref(2), LTrim(X, "spaces"), Bt>>), SeqE("of", <<Ref(2), SPt, Bt>>)>>)}
      qt == {AnyE(<<A, SeqE("of", <<A, SPt, SPt, Bt>>)>>), SeqE("of", <<A, Opt(SeqE("of", <<SPt, Bt>>))>>),
             SeqE("of", <<A, Opt(SeqE("of", <<SPt, SPt, X, X>>))>>)}
  IN {<<x, y>> : x \in p, y \in q} \cup {<<x, y>> : x \in ps, y \in qs} \cup {<<x, y>> : x \in pt, y \in qt}

\* trims in the mode that allows any run, over operands that return SEVERAL alternatives of different lengths (the end of every
\* alternative moves behind the run that follows IT), and left recursion through such a trim.  Every grammar starts with an
\* untrimmed terminal: "the tree starts at the first byte" (C04) is a statement about grammars that do not skip leading blanks
TrimNl ==
  {<<SeqE("of", <<A, RTrim(AnyE(<<Bt, SeqE("of", <<RTrim(Bt, "nl"), A>>)>>), "nl"), Bt>>)>>,
   <<SeqE("of", <<RTrim(AnyE(<<A, SeqE("of", <<A, A>>)>>), "nl"), LTrim(Bt, "nl")>>)>>,
   <<AnyE(<<SeqE("of", <<RTrim(Ref(1), "nl"), Bt>>), A>>)>>,
   <<SeqE("of", <<A, LTrim(Opt(A), "nl"), RTrim(SeqE("many1", <<Bt>>), "nl"), A>>)>>,
   <<SeqE("of", <<RTrim(Ref(2), "nl"), Bt>>), AnyE(<<A, SeqE("of", <<A, SPt>>), SeqE("of", <<A, A>>)>>)>>}

\* Optional directly over (curtailed) left-recursive calls, two nonterminals that meet at the same position from different contexts
OptLR ==
  LET n1 == {AnyE(<<A, Opt(Ref(2))>>), Opt(SeqE("of", <<Ref(1), Ref(2), A>>)), Opt(SeqE("of", <<Ref(1), Ref(2)>>)),
             AnyE(<<Opt(Ref(2)), A>>), Opt(SeqE("of", <<Ref(2), A>>)), AnyE(<<SeqE("of", <<Opt(Ref(2)), A>>), Bt>>)}
      n2 == {AnyE(<<SeqE("of", <<Ref(2), Bt>>), SeqE("of", <<Ref(1), Ref(1), Bt>>)>>), Ref(1), SeqE("of", <<Ref(1), Bt>>),
             AnyE(<<SeqE("of", <<Ref(1), Bt>>), Bt>>), AnyE(<<SeqE("of", <<Ref(2), Bt>>), Ref(1)>>), Opt(SeqE("of", <<Ref(1), Bt>>))}
  IN {<<x, y>> : x \in n1, y \in n2}

\* two nonterminals: mutual and indirect left recursion
F3Pairs ==
  LET at == {A, Bt, Ref(1), Ref(2), Opt(Ref(2))}
      alts == {SeqE("of", <<x>>) : x \in {A, Bt}} \cup {SeqE("of", <<x, y>>) : x \in at, y \in {A, Bt, Ref(1), Ref(2)}}
  IN {<<AnyE(<<p1, p2>>), AnyE(<<q1, q2>>)>> : p1 \in alts, p2 \in {SeqE("of", <<A>>), SeqE("of", <<Ref(2)>>)},
                                                q1 \in alts, q2 \in {SeqE("of", <<Bt>>), SeqE("of", <<Ref(1), Bt>>)}}

\* the hand-written catalogue: every combinator under direct / indirect / hidden left recursion,
\* right and centre recursion, cyclic unit rules, the counterexample shapes of the defects
Catalogue == {
  <<AnyE(<<SeqE("of", <<Ref(1), Bt>>), A>>)>>,                                 \* P -> P b | a
  <<AnyE(<<SeqE("of", <<A, Ref(1)>>), Eps>>)>>,                                \* P -> a P | eps
  <<AnyE(<<SeqE("of", <<A, Ref(1), Bt>>), Eps>>)>>,                            \* centre recursion
  <<AnyE(<<SeqE("of", <<Ref(1), Ref(1)>>), A>>)>>,                             \* ambiguous P -> P P | a
  <<AnyE(<<SeqE("of", <<Ref(1), A, Ref(1)>>), Bt>>)>>,                         \* P -> P a P | b
  <<SeqE("of", <<AnyE(<<Ref(1), A, Opt(Ref(1))>>), Bt>>)>>,                    \* D1: P -> (P | a | P?) b
  <<AnyE(<<SeqE("of", <<Opt(X), Ref(1), Bt>>), A>>)>>,                         \* D2: P -> x? P b | a
  <<AnyE(<<Ref(1), A>>)>>,                                                     \* cyclic unit rule
  <<AnyE(<<Opt(Ref(1)), A>>)>>,
  <<AnyE(<<SeqE("of", <<Ref(1), Opt(Bt)>>), A>>)>>,                            \* P -> P b? | a  (cyclic)
  <<AnyE(<<SeqE("of", <<Ref(2), Bt>>), A>>), AnyE(<<Ref(1), SeqE("of", <<Ref(1), A>>)>>)>>,   \* indirect
  <<AnyE(<<SeqE("of", <<Ref(2), A>>), Bt>>), AnyE(<<SeqE("of", <<Ref(1), Bt>>), A>>)>>,       \* mutual
  <<ChoiceE(<<SeqE("of", <<Ref(1), Bt>>), A>>)>>,                              \* inadmissible: tested edge in a cycle
  <<AnyE(<<SeqE("of", <<Ref(1), SeqE("many1", <<Bt>>)>>), A>>)>>,
  <<AnyE(<<SeqE("of", <<Ref(1), SeqE("sepby1", <<A, Bt>>)>>), A>>)>>,
  <<AnyE(<<SeqE("try", <<Ref(1), Bt, A>>), A>>)>>,                             \* inadmissible (tested)
  <<AnyE(<<SeqE("of", <<Ref(1), SeqE("try", <<Bt, A>>)>>), A>>)>>,
  <<AnyE(<<SeqE("of", <<Ref(1), SeqE("foa", <<Bt, A, Bt>>)>>), A>>)>>,
  <<AnyE(<<SeqE("of", <<Ref(1), ChoiceE(<<SeqE("of", <<Bt, Bt>>), Bt>>)>>), A>>)>>,
  <<SeqE("many", <<AnyE(<<A, SeqE("of", <<Bt, Ref(1)>>)>>)>>)>>,
  <<SeqE("sepby", <<AnyE(<<A, SeqE("of", <<A, A>>)>>), Bt>>)>>,
  <<AnyE(<<SeqE("of", <<Named(AnyE(<<Ref(1), A>>), "was expecting N1"), Bt>>), A>>)>>,
  <<Named(AnyE(<<SeqNamed("of", <<A, Bt>>, "was expecting S1"), SeqE("of", <<A, A>>)>>), "was expecting N2")>>
}
=============================================================================
